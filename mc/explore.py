"""Explicit-state exploration of the real implementation.

A state is the history (list of JSON-able operations) that reaches it from a
named initial state; it is materialised by rebuilding fresh objects and
replaying.  States are deduplicated by a canonical fingerprint of the heap
reachable from the world's named objects.
"""

import collections
import enum
import hashlib
import types
import uuid

from . import common


# ---------------------------------------------------------------- fingerprint
_FN_TYPES = (
    types.FunctionType,
    types.MethodType,
    types.BuiltinFunctionType,
    type,
    types.ModuleType,
)
_NX = ("MultiDiGraph", "DiGraph", "MultiGraph", "Graph")
_KIND_CACHE = {}


def _kind_of(t):
    """Classify a type once; the walk dispatches on this."""
    k = _KIND_CACHE.get(t)
    if k is not None:
        return k
    if t in (type(None), bool, int, str, float) or issubclass(t, range):
        k = "repr"
    elif issubclass(t, bytes):
        k = "bytes"
    elif issubclass(t, uuid.UUID):
        k = "uuid"
    elif issubclass(t, enum.Enum):
        k = "enum"
    elif issubclass(t, _FN_TYPES):
        k = "fn"
    elif issubclass(t, tuple):
        k = "tuple"
    elif issubclass(t, bytearray):
        k = "bytearray"
    elif issubclass(t, list):
        k = "list"
    elif issubclass(t, (set, frozenset)):
        k = "set"
    elif t.__name__ == "IntervalTree":
        k = "itree"
    elif t.__name__ in _NX:
        k = "nx"
    elif issubclass(t, collections.abc.Mapping):
        k = "map"
    else:
        slots = []
        for klass in t.__mro__:
            for sl in getattr(klass, "__slots__", ()) or ():
                if isinstance(sl, str) and sl not in ("__dict__", "__weakref__"):
                    slots.append(sl)
        k = ("obj", tuple(slots))
    _KIND_CACHE[t] = k
    return k


class Fingerprinter:
    """Generic, attribute-name-agnostic canonical serialisation of a heap."""

    def __init__(self, names, skip_class_names=()):
        # names: dict id(obj) -> stable name
        self.names = names
        self.skip = set(skip_class_names)
        self.memo = {}

    def ser(self, o, top=False):
        t = type(o)
        k = _kind_of(t)
        if k == "repr":
            return repr(o)
        if k == "uuid":
            return "U" + o.hex
        if k == "enum":
            return "E%s.%s" % (t.__name__, o.name)
        if k == "bytes":
            return "b" + o.hex()
        oid = id(o)
        if not top and oid in self.names:
            return "@" + self.names[oid]
        cname = t.__name__
        if cname in self.skip:
            return "~" + cname
        if k == "fn":
            return "fn"
        ser = self.ser
        if k == "tuple":
            inner = ",".join([ser(x) for x in o])
            return "(%s:%s)" % (cname if cname != "tuple" else "", inner)
        memo = self.memo
        if oid in memo:
            return "^%d" % memo[oid]
        memo[oid] = len(memo)
        if k == "bytearray":
            return "ba" + bytes(o).hex()
        if k == "list":
            return "[" + ",".join([ser(x) for x in o]) + "]"
        if k == "set":
            return "{" + ",".join(sorted([ser(x) for x in o])) + "}"
        if k == "itree":
            return "IT{" + ",".join(
                sorted(
                    ["%r:%r:%s" % (iv.begin, iv.end, ser(iv.data)) for iv in o]
                )
            ) + "}"
        if k == "nx":
            d = vars(o)
            keep = {
                kk: d[kk] for kk in ("_adj", "_pred", "_succ", "_node") if kk in d
            }
            return "NX" + self.ser_map(keep)
        if k == "map":
            return cname[:2] + self.ser_map(o)
        items = {}
        try:
            items.update(vars(o))
        except TypeError:
            pass
        for sl in k[1]:
            try:
                items[sl] = getattr(o, sl)
            except AttributeError:
                pass
        if not items:
            return "<%s>" % cname
        return "<%s %s>" % (cname, self.ser_map(items))

    def ser_map(self, m):
        ser = self.ser
        return "{" + ",".join(
            sorted(["%s=%s" % (ser(kk), ser(v)) for kk, v in m.items()])
        ) + "}"


def fingerprint(objs, skip_class_names=(), extra=""):
    """objs: dict name -> object.  Returns 16-byte digest."""
    names = {id(o): n for n, o in objs.items()}
    fp = Fingerprinter(names, skip_class_names)
    parts = []
    for n in sorted(objs):
        parts.append(n + "=" + fp.ser(objs[n], top=True))
    parts.append(extra)
    return hashlib.md5("\n".join(parts).encode()).digest()


def fingerprint_text(objs, skip_class_names=()):
    names = {id(o): n for n, o in objs.items()}
    fp = Fingerprinter(names, skip_class_names)
    return "\n".join(n + "=" + fp.ser(objs[n], top=True) for n in sorted(objs))


# ------------------------------------------------------------------- search
class Scenario:
    """Subclass per scenario.  All methods run in worker processes."""

    name = "scenario"
    skip_class_names = ()

    def initial_states(self):
        """list of JSON-able init keys"""
        raise NotImplementedError

    def build(self, init):
        """fresh world for init key"""
        raise NotImplementedError

    def ops(self, world):
        """enabled operations in this state (JSON-able tuples/lists)"""
        raise NotImplementedError

    def apply(self, world, op):
        """apply op to implementation and model; returns list of
        (signature, detail) discrepancies of this step"""
        raise NotImplementedError

    def check(self, world):
        """state invariants / probes run after every transition; returns list
        of (signature, detail)"""
        return []

    def check_state(self, world):
        """expensive state-only probes, run once per expanded state (may
        disturb the world: it is rebuilt afterwards)"""
        return []

    def state_summary(self, world):
        """optional (key, value) pair, read right after check_state on the
        same world: all states with one key must have one value (differential
        oracle); None to opt out"""
        return None

    def summary_signature(self, key, v1, v2):
        return "summary-conflict"

    def state_stats(self, world):
        """counter names for this (probed) state"""
        return ()

    def prefix_ok(self, op):
        return True

    def objs(self, world):
        """dict name -> object for the fingerprint"""
        return world.objs

    def fp_extra(self, world):
        return ""

    def stats(self, world, op):
        """optional anti-vacuity counters for this transition: iterable of
        counter names"""
        return ()

    # helpers -------------------------------------------------------------
    def materialise(self, init, history):
        w = self.build(init)
        for op in history:
            self.apply(w, op)
        return w

    def fingerprint(self, world):
        return fingerprint(
            self.objs(world), self.skip_class_names, self.fp_extra(world)
        )


_SCEN = None
_PROP = "?"


def _cap(v, per_prop=4):
    """keep the first few violations of each property"""
    out, n = [], collections.Counter()
    v = [((_PROP + "/" + sig) if sig.startswith(("harness-error",
                                                  "check-error")) else sig, d)
         for sig, d in v]
    for sig, detail in v:
        p = sig.split("/")[0]
        n[p] += 1
        if n[p] <= per_prop:
            out.append((sig, detail))
    return out


def _set_scenario(s, prop="?"):
    global _SCEN, _PROP
    _SCEN = s
    _PROP = prop


def _expand(task):
    """Worker: expand one state.  Returns (init, history, results, counters)
    results: list of (op, fp, prefix_ok, violations)"""
    init, history, check_self, do_expand = task
    sc = _SCEN
    counters = collections.Counter()
    out = []
    base = sc.materialise(init, history)
    self_viol = []
    self_fp = sc.fingerprint(base)
    summary = None
    if check_self:
        self_viol = sc.check(base)
    try:
        with common.time_limit(120):
            self_viol = list(self_viol) + list(sc.check_state(base))
        summary = sc.state_summary(base)
    except (Exception, common.Hang) as e:  # noqa
        import traceback

        self_viol = list(self_viol) + [
            ("harness-error:check_state:" + type(e).__name__,
             traceback.format_exc()[-600:])]
    for c in sc.state_stats(base):
        counters[c] += 1
    if not do_expand:
        return init, history, self_fp, _cap(self_viol), out, counters, summary
    base = sc.materialise(init, history)
    ops = sc.ops(base)
    for op in ops:
        w = sc.materialise(init, history)
        try:
            with common.time_limit(60):
                v = list(sc.apply(w, op))
        except (Exception, common.Hang) as e:  # report loudly as violation
            import traceback

            v = [("harness-error:" + type(e).__name__,
                  traceback.format_exc()[-600:])]
            out.append((op, None, False, v))
            continue
        fp = sc.fingerprint(w)
        try:
            with common.time_limit(60):
                v += sc.check(w)
        except (Exception, common.Hang) as e:  # noqa
            import traceback

            v.append(("check-error:" + type(e).__name__,
                      traceback.format_exc()[-600:]))
        for c in sc.stats(w, op):
            counters[c] += 1
        counters["op:" + str(op[0])] += 1
        out.append((op, fp, sc.prefix_ok(op) and not v, _cap(v)))
    return init, history, self_fp, _cap(self_viol), out, counters, summary


def reproduce(sc, init, history, op, signature, times=3):
    """Determinism gate: re-execute from fresh objects."""
    hits = 0
    for _ in range(times):
        # (the same error classes as _expand, so that a crash of an oracle
        # on an inconsistent implementation state reproduces as what it was)
        v = []
        try:
            w = sc.materialise(init, history)
            if op is not None:
                v = list(sc.apply(w, op))
        except Exception as e:  # noqa
            v = [("harness-error:" + type(e).__name__, "")]
            w = None
        if w is not None:
            try:
                v += sc.check(w)
            except Exception as e:  # noqa
                v.append(("check-error:" + type(e).__name__, ""))
            if op is None:
                try:
                    v += sc.check_state(w)
                except Exception as e:  # noqa
                    v.append(("harness-error:check_state:"
                              + type(e).__name__, ""))
        v = _cap(v, 1000)
        if any(s == signature for s, _ in v):
            hits += 1
    return hits


def explore(ctx, sc, max_depth=None, state_cap=None, label=None,
            probe_leaves=False):
    """Level-synchronous BFS.  Returns coverage dict."""
    _set_scenario(sc, ctx.prop)
    common.close_pool()  # workers must see the scenario (fork after set)
    seen = {}
    frontier = []
    transitions = 0
    counters = collections.Counter()
    samples = []
    levels = []
    outcomes = set()
    pending_viol = {}
    other_prop_viol = collections.Counter()
    complete = True

    summaries = {}
    summary_conflicts = {}
    inits = list(sc.initial_states())
    tasks = [(i, [], True, True) for i in inits]
    depth = 0
    level_tasks = tasks
    while level_tasks:
        if max_depth is not None and depth > max_depth:
            complete = False
            break
        ctx.rng.shuffle(level_tasks)
        next_frontier = []
        aborted = False
        n_done = 0
        for (init, history, self_fp, self_viol, results, cnt,
             summary) in common.pmap(_expand, level_tasks):
            if summary is not None:
                skey, sval = summary
                slot = summaries.setdefault(skey, {})
                ent = slot.setdefault(sval, [init, history, set()])
                if len(ent[2]) < 3:
                    ent[2].add(self_fp)
                if len(slot) > 1 and skey not in summary_conflicts:
                    summary_conflicts[skey] = True
            n_done += 1
            counters.update(cnt)
            if self_fp is not None and self_fp not in seen:
                seen[self_fp] = (init, history)
            if True:
                for sig, detail in self_viol:
                    if not sig.startswith(ctx.prop + "/"):
                        other_prop_viol[sig.split("/")[0]] += 1
                        continue
                    pending_viol.setdefault(
                        sig, (init, history, None, detail)
                    )
            for op, fp, pfx, viol in results:
                transitions += 1
                for sig, detail in viol:
                    if not sig.startswith(ctx.prop + "/"):
                        other_prop_viol[sig.split("/")[0]] += 1
                        continue
                    old = pending_viol.get(sig)
                    if old is None or len(old[1]) > len(history):
                        pending_viol[sig] = (init, history, op, detail)
                if fp is None:
                    continue
                outcomes.add(fp)
                if fp not in seen:
                    if pfx:
                        seen[fp] = (init, history + [op])
                        next_frontier.append((init, history + [op], False, True))
                        if len(samples) < 8 and (len(history) >= 1
                                                 or len(samples) < 2):
                            samples.append(
                                {"init": init, "history": history + [op]}
                            )
            if ctx.out_of_time(0.9):
                aborted = n_done < len(level_tasks)
                if aborted:
                    break
        if aborted:
            complete = False
            common.close_pool()
            levels.append(
                {"depth": depth, "expanded": n_done, "of": len(level_tasks),
                 "complete": False}
            )
            break
        levels.append(
            {"depth": depth, "expanded": len(level_tasks), "complete": True,
             "new_states": len(next_frontier)}
        )
        depth += 1
        if state_cap is not None and len(seen) > state_cap:
            complete = False
            break
        level_tasks = next_frontier
        if max_depth is not None and depth > max_depth and level_tasks:
            complete = False
            if probe_leaves:
                # states at the depth bound: probe them, do not expand
                leaf_tasks = [(i, h, False, False) for i, h, _, _ in level_tasks]
                n_leaf = 0
                for (init, history, self_fp, self_viol, results, cnt,
                     summary) in common.pmap(_expand, leaf_tasks):
                    n_leaf += 1
                    counters.update(cnt)
                    if summary is not None:
                        skey, sval = summary
                        slot = summaries.setdefault(skey, {})
                        ent = slot.setdefault(sval, [init, history, set()])
                        if len(ent[2]) < 3:
                            ent[2].add(self_fp)
                    for sig, detail in self_viol:
                        if not sig.startswith(ctx.prop + "/"):
                            other_prop_viol[sig.split("/")[0]] += 1
                            continue
                        old = pending_viol.get(sig)
                        if old is None or len(old[1]) > len(history):
                            pending_viol[sig] = (init, history, None, detail)
                    if ctx.out_of_time(0.95):
                        break
                levels.append({"depth": depth, "probed_only": n_leaf,
                               "of": len(leaf_tasks),
                               "complete": n_leaf == len(leaf_tasks)})
                if n_leaf < len(leaf_tasks):
                    common.close_pool()
            break

    # determinism gate + report
    for sig, (init, history, op, detail) in sorted(
        pending_viol.items(), key=lambda kv: (len(kv[1][1]), kv[0])
    ):
        hits = reproduce(sc, init, history, op, sig)
        payload = {
            "scenario": label or sc.name,
            "init": init,
            "history": history,
            "op": op,
            "detail": detail,
            "reproduced": "%d/3" % hits,
        }
        if hits == 0:
            ctx.unreproduced.append(payload)
            continue
        ctx.violation(sig, payload)

    # differential oracle: one value per summary key
    n_multi = 0
    for skey, slot in summaries.items():
        fps = set()
        for ent in slot.values():
            fps |= ent[2]
        if len(fps) > 1:
            n_multi += 1
        if len(slot) > 1:
            (v1, e1), (v2, e2) = sorted(
                slot.items(), key=lambda kv: len(kv[1][1]))[:2]
            sig = ctx.prop + "/" + sc.summary_signature(skey, v1, v2)
            if sig.startswith(ctx.prop + "/"):
                ctx.violation(sig, {
                    "scenario": label or sc.name, "kind": "summary-conflict",
                    "init": e1[0], "history": e1[1], "op": None,
                    "init2": e2[0], "history2": e2[1],
                    "detail": "two states with the same public structure "
                    "answer differently",
                })

    fixpoint = complete and not level_tasks
    cov = {
        "scenario": label or sc.name,
        "states": len(seen),
        "transitions": transitions,
        "traces_validated_against_impl": transitions,
        "initial_states": len(inits),
        "max_depth_completed": max(
            [lv["depth"] for lv in levels if lv["complete"]] or [0]
        ),
        "levels": levels,
        "fixpoint_reached": fixpoint,
        "exhaustive": fixpoint,
        "counters": dict(sorted(counters.items())),
        "distinct_successor_fingerprints": len(outcomes),
        "samples": samples,
        "violations_of_other_properties_seen": dict(other_prop_viol),
    }
    import os as _os
    if _os.environ.get("MC_KEEP_SEEN"):
        cov["_seen"] = list(seen.values())
    if summaries:
        cov["summary_keys"] = len(summaries)
        cov["summary_keys_reached_by_several_hidden_states"] = n_multi
    return cov
