"""./check <Cxx> <quick|thorough> | --replay <file> | --selftest"""

import importlib
import json
import os
import sys

from . import build, common

CHECKS = {
    "C01": "mc.checks.c01",
    "C02": "mc.checks.c02",
    "C03": "mc.checks.forest",
    "C04": "mc.checks.forest",
    "C05": "mc.checks.layout",
    "C06": "mc.checks.layout",
    "C07": "mc.checks.codec",
    "C08": "mc.checks.codec",
    "C09": "mc.checks.c09",
    "C10": "mc.checks.symbols",
    "C11": "mc.checks.cfgset",
    "C12": "mc.checks.layout",
    "C13": "mc.checks.symexpr",
    "C14": "mc.checks.auxtables",
    "C15": "mc.checks.c15",
    "C16": "mc.checks.collections16",
    "C17": "mc.checks.c17",
    "C18": "mc.checks.c18",
    "C19": "mc.checks.bytes19",
}


def stage():
    build.sweep_stale()
    try:
        return build.stage_and_import()
    except Exception as e:  # tree does not build / import
        import traceback

        traceback.print_exc()
        common.die_infra("cannot stage/import gtirb from the tree: %r" % (e,))


def main(argv):
    if len(argv) >= 2 and argv[0] == "--replay":
        with open(argv[1]) as f:
            doc = json.load(f)
        prop = doc["property"]
        stage()
        if doc.get("scenario") == "scale":
            from .checks import wide

            return wide.replay(doc)
        if str(doc.get("scenario", "")).startswith("story"):
            from .checks import story

            return story.replay(doc)
        mod = importlib.import_module(CHECKS[prop])
        rc = mod.replay(doc)
        return rc
    if argv and argv[0] == "--selftest":
        stage()
        from . import selftest

        return selftest.main()
    if not argv or argv[0] not in CHECKS:
        print(__doc__)
        return 2
    prop = argv[0]
    tier = argv[1] if len(argv) > 1 else os.environ.get("VERIF_TIER", "quick")
    if tier not in ("quick", "thorough"):
        print(__doc__)
        return 2
    stage()
    mod = importlib.import_module(CHECKS[prop])
    ctx = common.Ctx(prop, tier)
    try:
        from .checks import wide

        wide.run(ctx)  # magnitude sweeps with the property's oracles
        from .checks import story

        story.run(ctx)  # cross-feature histories, whole-IR oracle
        rc = mod.run(ctx)
    except SystemExit:
        raise
    except BaseException:  # a crash of the machinery is not a verdict
        import traceback

        traceback.print_exc()
        common.close_pool()
        common.die_infra("check %s crashed (see traceback above)" % prop)
    finally:
        common.close_pool()
    return rc


if __name__ == "__main__":
    sys.exit(main(sys.argv[1:]))
