"""IR specifications: plain-data descriptions of self-contained IRs, with

  * an enumerator of structures (skeletons x decorations) and of single /
    double field deviations from boundary-value tables,
  * build_ir(spec, order): construct the IR through the public API in one of
    several construction orders,
  * expected_snapshot(spec) / snapshot(ir): canonical observable content,
  * spec_to_plain(spec) / msg_to_plain(msg): canonical form of the protobuf
    message (independent of gtirb's _to_protobuf),
  * spec_to_message(spec): a gtirb.proto.IR message built directly from the
    generated descriptor classes.

Enum-valued fields of a spec hold schema numbers, never Python Enum members.
"""

import copy
import itertools
import struct
import uuid as uuidlib

from . import refcodec as R

MAXU64 = (1 << 64) - 1
MINI64 = -(1 << 63)
MAXI64 = (1 << 63) - 1


def U(k):
    # the high fields are deliberately not byte-palindromes: a UUID written
    # with the wrong byte order (bytes_le) must differ from the right one
    return uuidlib.UUID(int=(0x0123456789ABCDEF << 64) + 0xA0000 + k)


NIL = uuidlib.UUID(int=0)
ONES = uuidlib.UUID(int=(1 << 128) - 1)


# ------------------------------------------------------------------ specs
def mk_block(kind, k, offset=0, size=1, decode_mode=0):
    return {"kind": kind, "uuid": U(k), "offset": offset, "size": size,
            "decode_mode": decode_mode}


def mk_interval(k, address=0, size=4, contents=b"", blocks=(), symexprs=None):
    return {"uuid": U(k), "address": address, "size": size,
            "contents": bytes(contents), "blocks": list(blocks),
            "symexprs": dict(symexprs or {})}


def mk_section(k, name="s", flags=(), intervals=()):
    return {"uuid": U(k), "name": name, "flags": list(flags),
            "intervals": list(intervals)}


def mk_symbol(k, name="y", payload=("none",), at_end=False):
    return {"uuid": U(k), "name": name, "payload": payload, "at_end": at_end}


def mk_module(k, name="m", sections=(), symbols=(), proxies=(), entry=None,
              aux=None, **kw):
    m = {"uuid": U(k), "name": name, "binary_path": "", "isa": 0,
         "file_format": 0, "byte_order": 0, "preferred_addr": 0,
         "rebase_delta": 0, "sections": list(sections),
         "symbols": list(symbols), "proxies": list(proxies), "entry": entry,
         "aux": dict(aux or {})}
    m.update(kw)
    return m


def mk_ir(k, modules=(), cfg=(), aux=None, version=None):
    return {"uuid": U(k), "modules": list(modules), "cfg": list(cfg),
            "aux": dict(aux or {}), "version": version}


def walk(spec):
    """yields (kind, node-dict, parent-dict)"""
    yield "ir", spec, None
    for m in spec["modules"]:
        yield "module", m, spec
        for p in m["proxies"]:
            yield "proxy", p, m
        for y in m["symbols"]:
            yield "symbol", y, m
        for s in m["sections"]:
            yield "section", s, m
            for b in s["intervals"]:
                yield "interval", b, s
                for k in b["blocks"]:
                    yield "block", k, b


def all_uuids(spec):
    return [n["uuid"] for _, n, _ in walk(spec)]


# --------------------------------------------------------- structure space
class Counter:
    def __init__(self):
        self.n = 0

    def next(self):
        self.n += 1
        return self.n


def skeletons(max_nodes):
    """All containment shapes with per-parent fan-out <= 2 and at most
    max_nodes nodes (IR included).  A shape is a nested tuple:
      modules: tuple of (sections, n_proxies, n_symbols)
      sections: tuple of intervals;  interval: tuple of block kinds"""
    block_sets = [(), ("code",), ("data",), ("code", "data"), ("code", "code"),
                  ("data", "data")]
    ivs = [(bs,) for bs in block_sets]

    def size_iv(iv):
        return 1 + len(iv)

    interval_opts = block_sets
    section_opts = []
    for n in range(0, 3):
        for combo in itertools.combinations_with_replacement(interval_opts, n):
            section_opts.append(tuple(combo))

    def size_sec(sec):
        return 1 + sum(1 + len(iv) for iv in sec)

    module_opts = []
    for nsec in range(0, 3):
        for secs in itertools.combinations_with_replacement(section_opts, nsec):
            base = 1 + sum(size_sec(s) for s in secs)
            if base > max_nodes - 1:
                continue
            for npx in range(0, 3):
                for nsy in range(0, 3):
                    if base + npx + nsy <= max_nodes - 1:
                        module_opts.append((tuple(secs), npx, nsy))

    def size_mod(m):
        return 1 + sum(size_sec(s) for s in m[0]) + m[1] + m[2]

    out = []
    for nm in range(0, 3):
        for mods in itertools.combinations_with_replacement(module_opts, nm):
            if 1 + sum(size_mod(m) for m in mods) <= max_nodes:
                out.append(tuple(mods))
    return out


LABELS = [None, (0, False, False), (1, True, True), (2, False, True),
          (3, True, False), (4, False, False), (5, True, True)]


def decorate(shape, variant):
    """shape -> spec, with references (payloads, entry point, expressions,
    edges, aux data) chosen by `variant` (0..3)."""
    c = Counter()
    ir = mk_ir(c.next())
    v = variant
    addr_cycle = [0, 16, None, 0x1000]
    for mi, (secs, npx, nsy) in enumerate(shape):
        sections = []
        for si, sec in enumerate(secs):
            intervals = []
            for bi, kinds in enumerate(sec):
                blocks = []
                for ki, kind in enumerate(kinds):
                    blocks.append(mk_block(
                        kind, c.next(), offset=[0, 1, 0, 3][(ki + v) % 4],
                        size=[1, 0, 3, 2][(ki + bi + v) % 4],
                        decode_mode=(ki + v) % 2 if kind == "code" else 0))
                size = [4, 0, 8][(bi + v) % 3]
                contents = bytes(range(1, 1 + [4, 0, 3][(bi + v) % 3]))
                intervals.append(mk_interval(
                    c.next(), address=addr_cycle[(bi + si + v) % 4], size=size,
                    contents=contents, blocks=blocks))
            sections.append(mk_section(
                c.next(), name=[".text", "", ".dätä"][(si + v) % 3],
                flags=[[], [1, 3], [0], [1, 2, 3, 4, 5, 6]][(si + v) % 4],
                intervals=intervals))
        proxies = [{"uuid": U(c.next())} for _ in range(npx)]
        module = mk_module(c.next(), name="m%d" % mi, sections=sections,
                           proxies=proxies)
        code = [k for s in sections for b in s["intervals"]
                for k in b["blocks"] if k["kind"] == "code"]
        data = [k for s in sections for b in s["intervals"]
                for k in b["blocks"] if k["kind"] == "data"]
        referents = code + data + proxies
        symbols = []
        for yi in range(nsy):
            choice = (yi + v) % 4
            if choice == 0 and referents:
                payload = ("ref", referents[(yi + v) % len(referents)]["uuid"])
            elif choice == 1:
                payload = ("value", [0, MAXU64, 7][(yi + v) % 3])
            elif choice == 2 and referents:
                payload = ("ref", referents[-1 - (yi % len(referents))]["uuid"])
            else:
                payload = ("none",)
            symbols.append(mk_symbol(c.next(), name=["y", "", "fü\U0001F600"][(yi + v) % 3],
                                     payload=payload, at_end=bool((yi + v) % 2)))
        module["symbols"] = symbols
        if code and v % 3 != 2:
            module["entry"] = code[(v) % len(code)]["uuid"]
        # symbolic expressions: in every interval when the module has symbols
        if symbols:
            n = 0
            for s in sections:
                for b in s["intervals"]:
                    y1 = symbols[n % len(symbols)]["uuid"]
                    y2 = symbols[(n + 1) % len(symbols)]["uuid"]
                    ex = {}
                    if (n + v) % 2 == 0:
                        ex[0] = {"kind": "const", "offset": [0, -1, MAXI64][(n + v) % 3],
                                 "sym1": y1, "attrs": [[], [0], [4, 1000, 77777]][(n + v) % 3]}
                    if (n + v) % 3 != 1:
                        ex[[1, MAXU64, 5][(n + v) % 3]] = {
                            "kind": "addr", "offset": [3, MINI64, 0][(n + v) % 3],
                            "scale": [1, -2, MAXI64][(n + v) % 3],
                            "sym1": y1, "sym2": y2,
                            "attrs": [[2001], [], [6, 6]][(n + v) % 3][:2]}
                    if v % 2 == 1 and 0 in ex:
                        # payload-identical twins with other attributes
                        twin = dict(ex[0])
                        twin["attrs"] = [] if ex[0]["attrs"] else [5]
                        ex[2] = twin
                        twin2 = dict(ex[0])
                        twin2["attrs"] = [9, 10]
                        ex[4] = twin2
                    b["symexprs"] = ex
                    n += 1
        if v % 2 == 0 and (sections or symbols):
            module["aux"] = {"t%d" % mi: ("sequence<uint8_t>", [1, 2, 3])}
        ir["modules"].append(module)
    nodes = [k for m in ir["modules"] for s in m["sections"]
             for b in s["intervals"] for k in b["blocks"] if k["kind"] == "code"]
    nodes += [p for m in ir["modules"] for p in m["proxies"]]
    edges = []
    if nodes:
        n = len(nodes)
        pairs = [(i, j) for i in range(n) for j in range(n)]
        for e, (i, j) in enumerate(pairs[:6]):
            lab = LABELS[(e + v) % len(LABELS)]
            edges.append((nodes[i]["uuid"], nodes[j]["uuid"], lab))
        if v % 2 == 1:
            # parallel edges differing only in label
            edges.append((nodes[0]["uuid"], nodes[-1]["uuid"], None))
            edges.append((nodes[0]["uuid"], nodes[-1]["uuid"], (0, False, False)))
            edges.append((nodes[0]["uuid"], nodes[-1]["uuid"], (0, False, True)))
    seen = set()
    ir["cfg"] = [e for e in edges if not (e in seen or seen.add(e))]
    if v % 2 == 1:
        some = all_uuids(ir)
        ir["aux"] = {
            "names": ("mapping<UUID,string>", {some[-1]: "last", U(9999): "ghost"}),
            "empty": ("sequence<Offset>", []),
        }
    elif v == 2:
        ir["aux"] = {"weird": ("foo<bar>", b"\x01\x02")}
    return ir


def rich_base():
    """One IR that contains every kind of node, payload, expression, edge and
    AuxData table: the base for field deviations."""
    c = Counter()
    k1 = mk_block("code", 1, offset=0, size=2, decode_mode=1)
    k2 = mk_block("data", 2, offset=2, size=2)
    k3 = mk_block("code", 3, offset=0, size=0)
    b1 = mk_interval(4, address=0x1000, size=8, contents=b"\x01\x02\x03\x04",
                     blocks=[k1, k2])
    b2 = mk_interval(5, address=None, size=4, contents=b"", blocks=[k3])
    s1 = mk_section(6, name=".text", flags=[1, 3], intervals=[b1, b2])
    s2 = mk_section(7, name=".bss", flags=[], intervals=[])
    p1 = {"uuid": U(8)}
    y1 = mk_symbol(9, "main", ("ref", U(1)))
    y2 = mk_symbol(10, "data", ("ref", U(2)), at_end=True)
    y3 = mk_symbol(11, "ext", ("ref", U(8)))
    y4 = mk_symbol(12, "abs", ("value", 0x400))
    y5 = mk_symbol(13, "undef", ("none",))
    y7 = mk_symbol(21, "main", ("ref", U(1)))  # twin of y1
    y8 = mk_symbol(25, "selfdiff", ("none",))  # only used by the (S - S) expr
    k5 = mk_block("code", 22, offset=0, size=2, decode_mode=1)  # twin of k1
    b1["blocks"].append(k5)
    # several expressions that are equal except for their attributes, at
    # different offsets (payload-identical twins), in both orders
    b1["symexprs"] = {
        0: {"kind": "const", "offset": 4, "sym1": U(9), "attrs": [0, 6]},
        1: {"kind": "const", "offset": 4, "sym1": U(9), "attrs": []},
        2: {"kind": "const", "offset": 4, "sym1": U(9), "attrs": [23]},
        3: {"kind": "const", "offset": 4, "sym1": U(9), "attrs": []},
        4: {"kind": "addr", "offset": -4, "scale": 2, "sym1": U(9),
            "sym2": U(10), "attrs": [99999]},
        5: {"kind": "addr", "offset": -4, "scale": 2, "sym1": U(9),
            "sym2": U(10), "attrs": []},
        6: {"kind": "addr", "offset": -4, "scale": 2, "sym1": U(9),
            "sym2": U(10), "attrs": [3001, 4]},
        7: {"kind": "const", "offset": 4, "sym1": U(21), "attrs": [1]},
        # (S - S): both operands one symbol that nothing else refers to
        8: {"kind": "addr", "offset": 0, "scale": 1, "sym1": U(25),
            "sym2": U(25), "attrs": []},
    }
    m1 = mk_module(14, "mod", sections=[s1, s2], symbols=[y1, y2, y3, y4, y5, y7, y8],
                   proxies=[p1], entry=U(1), binary_path="/bin/x", isa=3,
                   file_format=2, byte_order=2, preferred_addr=0x400000,
                   rebase_delta=-16,
                   aux={"mt": ("mapping<UUID,uint64_t>", {U(1): 5, U(777): 6})})
    k4 = mk_block("code", 15, offset=1, size=1)
    k6 = mk_block("data", 23, offset=0, size=1)  # referenced by nothing
    k7 = mk_block("code", 24, offset=0, size=0)  # referenced by nothing
    b3 = mk_interval(16, address=0, size=2, contents=b"\xff\xfe",
                     blocks=[k4, k6, k7])
    s3 = mk_section(17, name=".text", flags=[6], intervals=[b3])
    y6 = mk_symbol(18, "main", ("ref", U(15)))
    b3["symexprs"] = {1: {"kind": "const", "offset": 0, "sym1": U(18),
                          "attrs": []}}
    m2 = mk_module(19, "mod", sections=[s3], symbols=[y6], entry=None)
    ir = mk_ir(20, modules=[m1, m2])
    ir["cfg"] = [
        (U(1), U(3), (0, True, True)), (U(1), U(8), (1, False, False)),
        (U(1), U(8), None), (U(3), U(3), (2, False, True)),
        (U(15), U(1), (3, False, False)), (U(8), U(15), None),
    ]
    ir["aux"] = {
        "a": ("sequence<UUID>", [U(1), U(4), U(14), U(555)]),
        "o": ("mapping<Offset,string>", {("Offset", U(2), 1): "é"}),
        "u": ("unknown<thing>", b"\x00\x01\x02"),
        "z": ("tuple<string,int64_t,variant<uint8_t,string>>",
              ("", -1, ("Variant", 1, "\0"))),
    }
    return ir


# field deviation tables: kind -> field -> values
def deviation_table(enum_numbers):
    strs = ["", "é\U0001F600\0", "a" * 300]
    t = {
        "ir": {},
        "module": {
            "name": strs, "binary_path": strs,
            "isa": enum_numbers["ISA"], "file_format": enum_numbers["FileFormat"],
            "byte_order": enum_numbers["ByteOrder"],
            "preferred_addr": [0, 1, MAXU64],
            "rebase_delta": [0, MINI64, MAXI64, -1],
        },
        "section": {
            "name": strs,
            "flags": [[]] + [[n] for n in enum_numbers["SectionFlag"]]
            + [list(enum_numbers["SectionFlag"])],
        },
        "interval": {
            "address": [None, 0, MAXU64, 1],
            "size": [0, MAXU64, 4],
            "contents": [b"", b"\x00", b"\x01\x02\x03\x04"],
        },
        "block": {
            "offset": [0, MAXU64, 7], "size": [0, MAXU64, 1],
            "decode_mode": enum_numbers["DecodeMode"],
        },
        "symbol": {
            "name": strs, "at_end": [False, True],
            "payload": [("none",), ("value", 0), ("value", MAXU64),
                        ("value", 1)],
        },
        "proxy": {},
    }
    return t


def with_deviation(spec, index, field, value):
    """copy of spec with the index-th node's field replaced (validity kept:
    contents are never longer than size)"""
    s = copy.deepcopy(spec)
    nodes = list(walk(s))
    kind, node, _ = nodes[index]
    if kind == "block" and field == "decode_mode" and node["kind"] != "code":
        return None
    node[field] = value
    if kind == "interval":
        if len(node["contents"]) > node["size"]:
            if field == "contents":
                node["size"] = len(node["contents"])
            else:
                node["contents"] = node["contents"][: node["size"]]
    return s


def deviations(spec, table):
    """yields (label, spec') for every single-field deviation"""
    nodes = list(walk(spec))
    for i, (kind, node, _) in enumerate(nodes):
        for field, values in table.get(kind, {}).items():
            for v in values:
                if node.get(field) == v:
                    continue
                s = with_deviation(spec, i, field, v)
                if s is not None:
                    yield ("%s[%d].%s=%r" % (kind, i, field, v))[:80], s


def expr_deviations(spec, attr_numbers):
    """symbolic-expression and edge-label deviations on the rich base"""
    out = []
    for off in (0, MINI64, MAXI64, -1):
        s = copy.deepcopy(spec)
        for _, n, _ in walk(s):
            if "symexprs" in n:
                for e in n["symexprs"].values():
                    e["offset"] = off
        out.append(("symexpr.offset=%d" % off, s))
    for sc in (0, MINI64, MAXI64):
        s = copy.deepcopy(spec)
        for _, n, _ in walk(s):
            if "symexprs" in n:
                for e in n["symexprs"].values():
                    if e["kind"] == "addr":
                        e["scale"] = sc
        out.append(("symexpr.scale=%d" % sc, s))
    for a in attr_numbers + [7777, 26, MAXI64 >> 33]:
        s = copy.deepcopy(spec)
        for _, n, _ in walk(s):
            if "symexprs" in n:
                for e in n["symexprs"].values():
                    e["attrs"] = [a]
        out.append(("symexpr.attrs=[%d]" % a, s))
    s = copy.deepcopy(spec)
    for _, n, _ in walk(s):
        if "symexprs" in n:
            for e in n["symexprs"].values():
                e["attrs"] = list(attr_numbers)
    out.append(("symexpr.attrs=all", s))
    # move expressions to boundary keys
    s = copy.deepcopy(spec)
    for _, n, _ in walk(s):
        if n.get("symexprs"):
            vals = list(n["symexprs"].values())
            n["symexprs"] = dict(zip([0, MAXU64], vals))
    out.append(("symexpr.keys={0,2^64-1}", s))
    return out


def label_deviations(spec, edge_types):
    out = []
    for t in edge_types:
        for cond in (False, True):
            for direct in (False, True):
                s = copy.deepcopy(spec)
                s["cfg"] = [(a, b, (t, cond, direct)) for a, b, _ in s["cfg"]]
                s["cfg"] = list(dict.fromkeys(s["cfg"]))
                out.append(("cfg.labels=(%d,%s,%s)" % (t, cond, direct), s))
    s = copy.deepcopy(spec)
    s["cfg"] = list(dict.fromkeys((a, b, None) for a, b, _ in s["cfg"]))
    out.append(("cfg.labels=None", s))
    s = copy.deepcopy(spec)
    s["cfg"] = []
    out.append(("cfg=empty", s))
    return out


def uuid_deviations(spec):
    """boundary UUIDs on one node each (nil and all-ones), references kept"""
    out = []
    for target in (NIL, ONES):
        for i, (kind, node, _) in enumerate(list(walk(spec))):
            if kind not in ("ir", "module", "block", "symbol"):
                continue
            s = copy.deepcopy(spec)
            old = list(walk(s))[i][1]["uuid"]
            s = replace_uuid(s, old, target)
            out.append(("%s[%d].uuid=%s" % (kind, i, target.hex[:4]), s))
            break_after = kind == "symbol"
            if break_after:
                break
    return out


def replace_uuid(x, old, new):
    if isinstance(x, uuidlib.UUID):
        return new if x == old else x
    if isinstance(x, dict):
        return {replace_uuid(k, old, new): replace_uuid(v, old, new)
                for k, v in x.items()}
    if isinstance(x, list):
        return [replace_uuid(v, old, new) for v in x]
    if isinstance(x, tuple):
        return tuple(replace_uuid(v, old, new) for v in x)
    return x


def enum_numbers_from_descriptors():
    """schema enum constants, read from the generated descriptors"""
    from gtirb.proto import (CFG_pb2, CodeBlock_pb2, Module_pb2, Section_pb2,
                             SymbolicExpression_pb2)

    def nums(enum):
        return [v.number for v in enum.DESCRIPTOR.values]

    return {
        "ISA": nums(Module_pb2.ISA), "FileFormat": nums(Module_pb2.FileFormat),
        "ByteOrder": nums(Module_pb2.ByteOrder),
        "SectionFlag": nums(Section_pb2.SectionFlag),
        "DecodeMode": nums(CodeBlock_pb2.DecodeMode),
        "EdgeType": nums(CFG_pb2.EdgeType),
        "SymAttribute": nums(SymbolicExpression_pb2.SymAttribute),
    }


# ------------------------------------------------------------- API builder
ORDERS = ["topdown", "bottomup", "collections", "attach_last", "reversed"]


class EnumMissing(Exception):
    pass


def py_enum(enum_cls, number, what):
    try:
        return enum_cls(number)
    except ValueError:
        raise EnumMissing("%s has no member for schema number %d"
                          % (what, number))


def build_ir(spec, order="topdown", aux_as_nodes=False):
    """Construct the IR through the public API.  Returns (ir, nodes-by-uuid)."""
    import gtirb as g

    nodes = {}
    rev = order == "reversed"

    def seq(xs):
        return list(reversed(xs)) if rev else list(xs)

    def mk_blocks(b, parent=None):
        out = []
        for k in seq(b["blocks"]):
            kw = {"size": k["size"], "offset": k["offset"], "uuid": k["uuid"]}
            if parent is not None:
                kw["byte_interval"] = parent
            if k["kind"] == "code":
                o = g.CodeBlock(decode_mode=py_enum(
                    g.CodeBlock.DecodeMode, k["decode_mode"],
                    "CodeBlock.DecodeMode"), **kw)
            else:
                o = g.DataBlock(**kw)
            nodes[k["uuid"]] = o
            out.append(o)
        return out

    def mk_iv(b, **kw):
        return g.ByteInterval(address=b["address"], size=b["size"],
                              contents=b["contents"], uuid=b["uuid"], **kw)

    def flags_of(s):
        return [py_enum(g.Section.Flag, f, "Section.Flag") for f in s["flags"]]

    def mod_kw(m):
        return dict(
            name=m["name"], binary_path=m["binary_path"],
            isa=py_enum(g.Module.ISA, m["isa"], "Module.ISA"),
            file_format=py_enum(g.Module.FileFormat, m["file_format"],
                                "Module.FileFormat"),
            byte_order=py_enum(g.Module.ByteOrder, m["byte_order"],
                               "Module.ByteOrder"),
            preferred_addr=m["preferred_addr"], rebase_delta=m["rebase_delta"],
            uuid=m["uuid"])

    irkw = {"uuid": spec["uuid"]}
    if spec.get("version") is not None:
        irkw["version"] = spec["version"]
    ir = None
    if order in ("topdown", "collections", "reversed"):
        ir = g.IR(**irkw)
        nodes[spec["uuid"]] = ir
    built_modules = []
    for m in spec["modules"]:
        if order in ("topdown", "reversed"):
            mo = g.Module(ir=ir, **mod_kw(m))
            for p in seq(m["proxies"]):
                nodes[p["uuid"]] = g.ProxyBlock(uuid=p["uuid"], module=mo)
            for s in seq(m["sections"]):
                so = g.Section(name=s["name"], flags=flags_of(s),
                               uuid=s["uuid"], module=mo)
                nodes[s["uuid"]] = so
                for b in seq(s["intervals"]):
                    bo = mk_iv(b, section=so)
                    nodes[b["uuid"]] = bo
                    mk_blocks(b, parent=bo)
        elif order == "bottomup" or order == "attach_last":
            secs = []
            for s in m["sections"]:
                ivs = []
                for b in s["intervals"]:
                    bo = mk_iv(b, blocks=mk_blocks(b))
                    nodes[b["uuid"]] = bo
                    ivs.append(bo)
                so = g.Section(name=s["name"], flags=flags_of(s),
                               uuid=s["uuid"], byte_intervals=ivs)
                nodes[s["uuid"]] = so
                secs.append(so)
            pxs = []
            for p in m["proxies"]:
                nodes[p["uuid"]] = g.ProxyBlock(uuid=p["uuid"])
                pxs.append(nodes[p["uuid"]])
            mo = g.Module(sections=secs, proxies=pxs, **mod_kw(m))
        else:  # collections
            mo = g.Module(**mod_kw(m))
            ir.modules.append(mo)
            for p in m["proxies"]:
                nodes[p["uuid"]] = g.ProxyBlock(uuid=p["uuid"])
                mo.proxies.add(nodes[p["uuid"]])
            for s in m["sections"]:
                so = g.Section(name=s["name"], flags=flags_of(s), uuid=s["uuid"])
                nodes[s["uuid"]] = so
                for b in s["intervals"]:
                    bo = mk_iv(b)
                    nodes[b["uuid"]] = bo
                    for k in mk_blocks(b):
                        bo.blocks.add(k)
                    so.byte_intervals.add(bo)
                mo.sections.add(so)
        nodes[m["uuid"]] = mo
        built_modules.append((m, mo))
    # symbols (need referents), entry points, expressions
    for m, mo in built_modules:
        for y in seq(m["symbols"]):
            pl = y["payload"]
            payload = None
            if pl[0] == "value":
                payload = pl[1]
            elif pl[0] == "ref":
                payload = nodes[pl[1]]
            if order == "collections":
                yo = g.Symbol(y["name"], uuid=y["uuid"], at_end=y["at_end"])
                if pl[0] == "value":
                    yo.value = pl[1]
                elif pl[0] == "ref":
                    yo.referent = payload
                mo.symbols.add(yo)
            elif order == "bottomup":
                yo = g.Symbol(y["name"], uuid=y["uuid"], payload=payload,
                              at_end=y["at_end"])
                mo.symbols |= {yo}
            else:
                yo = g.Symbol(y["name"], uuid=y["uuid"], payload=payload,
                              at_end=y["at_end"], module=mo)
            nodes[y["uuid"]] = yo
        if m["entry"] is not None:
            mo.entry_point = nodes[m["entry"]]
    A = g.SymbolicExpression.Attribute
    known = {a.value: a for a in A}
    for m, mo in built_modules:
        for s in m["sections"]:
            for b in s["intervals"]:
                exprs = {}
                for off, e in b["symexprs"].items():
                    attrs = [known.get(a, a) for a in e["attrs"]]
                    if e["kind"] == "const":
                        exprs[off] = g.SymAddrConst(e["offset"], nodes[e["sym1"]],
                                                    attrs)
                    else:
                        exprs[off] = g.SymAddrAddr(e["scale"], e["offset"],
                                                   nodes[e["sym1"]],
                                                   nodes[e["sym2"]], attrs)
                bo = nodes[b["uuid"]]
                if order in ("bottomup", "attach_last"):
                    bo.symbolic_expressions = exprs
                else:
                    for off in seq(sorted(exprs)):
                        bo.symbolic_expressions[off] = exprs[off]
    if order == "bottomup":
        ir = g.IR(modules=[mo for _, mo in built_modules], **irkw)
        nodes[spec["uuid"]] = ir
    elif order == "attach_last":
        ir = g.IR(**irkw)
        nodes[spec["uuid"]] = ir
        for _, mo in built_modules:
            mo.ir = ir
    # cfg
    for (a, b, lab) in seq(spec["cfg"]):
        label = None
        if lab is not None:
            label = g.Edge.Label(py_enum(g.Edge.Type, lab[0], "Edge.Type"),
                                 lab[1], lab[2])
        ir.cfg.add(g.Edge(nodes[a], nodes[b], label))
    # aux data
    def aux_value(t, v):
        return aux_to_impl(g, nodes, R.parse(t), v, aux_as_nodes) \
            if not isinstance(v, bytes) else v

    def add_aux(container, aux):
        for name, (t, v) in aux.items():
            if isinstance(v, bytes):
                # a table of a type this API has no codec for: the documented
                # carrier is serialization.UnknownData
                container.aux_data[name] = g.AuxData(
                    g.serialization.UnknownData(v), t)
                continue
            container.aux_data[name] = g.AuxData(aux_value(t, v), t)

    add_aux(ir, spec["aux"])
    for m, mo in built_modules:
        add_aux(mo, m["aux"])
    return ir, nodes


def aux_to_impl(g, nodes, t, v, as_nodes):
    nm, subs = t
    if nm == "UUID":
        return nodes[v] if (as_nodes and v in nodes) else v
    if nm == "Offset":
        e = nodes[v[1]] if (as_nodes and v[1] in nodes) else v[1]
        return g.Offset(element_id=e, displacement=v[2])
    if nm == "sequence":
        return [aux_to_impl(g, nodes, subs[0], x, as_nodes) for x in v]
    if nm == "set":
        return {aux_to_impl(g, nodes, subs[0], x, as_nodes) for x in v}
    if nm == "mapping":
        return {aux_to_impl(g, nodes, subs[0], k, as_nodes):
                aux_to_impl(g, nodes, subs[1], x, as_nodes)
                for k, x in v.items()}
    if nm == "tuple":
        return tuple(aux_to_impl(g, nodes, s, x, as_nodes)
                     for x, s in zip(v, subs))
    if nm == "variant":
        return g.Variant(v[1], aux_to_impl(g, nodes, subs[v[1]], v[2], as_nodes))
    return v


def has_unknown_aux(spec):
    if any(isinstance(v, bytes) for _, v in spec["aux"].values()):
        return True
    return any(isinstance(v, bytes) for m in spec["modules"]
               for _, v in m["aux"].values())


def strip_unknown_aux(spec):
    s = copy.deepcopy(spec)
    s["aux"] = {k: tv for k, tv in s["aux"].items()
                if not isinstance(tv[1], bytes)}
    for m in s["modules"]:
        m["aux"] = {k: tv for k, tv in m["aux"].items()
                    if not isinstance(tv[1], bytes)}
    return s


# ---------------------------------------------------------------- snapshots
def canon_aux_value(v):
    """canonical, order-insensitive form; nodes and UUIDs both as uuid hex"""
    import gtirb as g

    if isinstance(v, g.Node):
        return ("uuid", v.uuid.hex)
    if isinstance(v, uuidlib.UUID):
        return ("uuid", v.hex)
    if isinstance(v, g.Offset):
        return ("offset", canon_aux_value(v.element_id), v.displacement)
    if isinstance(v, g.Variant):
        return ("variant", v.index, canon_aux_value(v.val))
    if isinstance(v, tuple) and len(v) == 3 and v[0] == "Offset":
        return ("offset", ("uuid", v[1].hex), v[2])
    if isinstance(v, tuple) and len(v) == 3 and v[0] == "Variant":
        return ("variant", v[1], canon_aux_value(v[2]))
    if isinstance(v, bool):
        return ("bool", v)
    if isinstance(v, float):
        return ("float", struct.pack("<d", v).hex())
    if isinstance(v, (bytes, bytearray)):
        return ("bytes", bytes(v).hex())
    if isinstance(v, list):
        return ("list",) + tuple(canon_aux_value(x) for x in v)
    if isinstance(v, tuple):
        return ("tuple",) + tuple(canon_aux_value(x) for x in v)
    if isinstance(v, (set, frozenset)):
        return ("set",) + tuple(sorted((canon_aux_value(x) for x in v), key=repr))
    if isinstance(v, dict):
        return ("map",) + tuple(sorted(
            ((canon_aux_value(k), canon_aux_value(x)) for k, x in v.items()),
            key=repr))
    return v


def snapshot(ir):
    """observable content through public attributes only"""
    import gtirb as g

    def ev(x):
        return x.value if hasattr(x, "value") and not isinstance(x, int) else x

    def aux(c):
        return sorted((name, a.type_name, canon_aux_value(a.data))
                      for name, a in c.aux_data.items())

    def payload(y):
        if y.referent is not None and y.value is not None:
            return ("both", y.referent.uuid.hex, y.value)
        if y.referent is not None:
            return ("ref", y.referent.uuid.hex)
        if y.value is not None:
            return ("value", y.value)
        return ("none",)

    def expr(e):
        attrs = sorted(ev(a) for a in e.attributes)
        if isinstance(e, g.SymAddrConst):
            return ("const", e.offset, e.symbol.uuid.hex, attrs)
        if isinstance(e, g.SymAddrAddr):
            return ("addr", e.scale, e.offset, e.symbol1.uuid.hex,
                    e.symbol2.uuid.hex, attrs)
        return ("?", repr(e))

    def block(k):
        if isinstance(k, g.CodeBlock):
            return ("code", k.uuid.hex, k.offset, k.size, ev(k.decode_mode))
        if isinstance(k, g.DataBlock):
            return ("data", k.uuid.hex, k.offset, k.size, None)
        return ("?", k.uuid.hex)

    def interval(b):
        return (b.uuid.hex, b.address, b.size, bytes(b.contents).hex(),
                b.initialized_size,
                sorted(block(k) for k in b.blocks),
                sorted((off, expr(e))
                       for off, e in b.symbolic_expressions.items()))

    def section(s):
        return (s.uuid.hex, s.name, sorted(ev(f) for f in s.flags),
                sorted(interval(b) for b in s.byte_intervals))

    def module(m):
        return {
            "uuid": m.uuid.hex, "name": m.name, "binary_path": m.binary_path,
            "isa": ev(m.isa), "file_format": ev(m.file_format),
            "byte_order": ev(m.byte_order),
            "preferred_addr": m.preferred_addr, "rebase_delta": m.rebase_delta,
            "entry": None if m.entry_point is None else m.entry_point.uuid.hex,
            "aux": aux(m),
            "proxies": sorted(p.uuid.hex for p in m.proxies),
            "sections": sorted(section(s) for s in m.sections),
            "symbols": sorted((y.uuid.hex, y.name, payload(y), y.at_end)
                              for y in m.symbols),
        }

    def label(lab):
        return None if lab is None else (ev(lab.type), lab.conditional, lab.direct)

    edges = [(e.source.uuid.hex, e.target.uuid.hex, label(e.label))
             for e in ir.cfg]
    return {
        "uuid": ir.uuid.hex, "version": ir.version, "aux": aux(ir),
        "modules": [module(m) for m in ir.modules],
        "cfg": sorted(edges, key=repr), "cfg_len": len(edges),
    }


def expected_snapshot(spec, pb_version, drop_unknown_aux=False):
    def aux(a):
        out = []
        for name, (t, v) in a.items():
            if isinstance(v, bytes):
                if drop_unknown_aux:
                    continue
                out.append((name, t, ("bytes", v.hex())))
            else:
                out.append((name, t, canon_aux_value(v)))
        return sorted(out)

    def expr(e):
        attrs = sorted(set(e["attrs"]))
        if e["kind"] == "const":
            return ("const", e["offset"], e["sym1"].hex, attrs)
        return ("addr", e["scale"], e["offset"], e["sym1"].hex, e["sym2"].hex,
                attrs)

    def block(k):
        return (k["kind"], k["uuid"].hex, k["offset"], k["size"],
                k["decode_mode"] if k["kind"] == "code" else None)

    def interval(b):
        return (b["uuid"].hex, b["address"], b["size"], b["contents"].hex(),
                len(b["contents"]), sorted(block(k) for k in b["blocks"]),
                sorted((off, expr(e)) for off, e in b["symexprs"].items()))

    def section(s):
        return (s["uuid"].hex, s["name"], sorted(set(s["flags"])),
                sorted(interval(b) for b in s["intervals"]))

    def payload(p):
        if p[0] == "ref":
            return ("ref", p[1].hex)
        return tuple(p)

    def module(m):
        return {
            "uuid": m["uuid"].hex, "name": m["name"],
            "binary_path": m["binary_path"], "isa": m["isa"],
            "file_format": m["file_format"], "byte_order": m["byte_order"],
            "preferred_addr": m["preferred_addr"],
            "rebase_delta": m["rebase_delta"],
            "entry": None if m["entry"] is None else m["entry"].hex,
            "aux": aux(m["aux"]),
            "proxies": sorted(p["uuid"].hex for p in m["proxies"]),
            "sections": sorted(section(s) for s in m["sections"]),
            "symbols": sorted((y["uuid"].hex, y["name"], payload(y["payload"]),
                               y["at_end"]) for y in m["symbols"]),
        }

    edges = sorted(set((a.hex, b.hex, lab) for a, b, lab in spec["cfg"]),
                   key=repr)
    return {
        "uuid": spec["uuid"].hex,
        "version": pb_version if spec.get("version") is None else spec["version"],
        "aux": aux(spec["aux"]),
        "modules": [module(m) for m in spec["modules"]],
        "cfg": edges, "cfg_len": len(edges),
    }


def diff(a, b, path=""):
    """first difference between two plain structures, as text"""
    if type(a) != type(b):
        return "%s: %r vs %r" % (path, a, b)
    if isinstance(a, dict):
        for k in sorted(set(a) | set(b), key=repr):
            if k not in a or k not in b:
                return "%s.%s: present on one side only" % (path, k)
            d = diff(a[k], b[k], "%s.%s" % (path, k))
            if d:
                return d
        return None
    if isinstance(a, (list, tuple)):
        if len(a) != len(b):
            return "%s: length %d vs %d: %r vs %r" % (path, len(a), len(b),
                                                      a, b)
        for i, (x, y) in enumerate(zip(a, b)):
            d = diff(x, y, "%s[%d]" % (path, i))
            if d:
                return d
        return None
    if a != b:
        return "%s: %r vs %r" % (path, a, b)
    return None


# ------------------------------------------------------- protobuf messages
SETLIKE = {"sections", "symbols", "proxies", "byte_intervals", "blocks",
           "section_flags", "attribute_flags", "vertices", "edges"}


def skey(x):
    """deterministic sort key for plain structures"""
    if isinstance(x, dict):
        return ("d",) + tuple(sorted((repr(k), skey(v)) for k, v in x.items()))
    if isinstance(x, (list, tuple)):
        return ("l",) + tuple(skey(v) for v in x)
    return ("a", repr(x))


def _is_repeated(f):
    r = getattr(f, "is_repeated", None)
    if r is not None:
        return r() if callable(r) else r
    return f.label == f.LABEL_REPEATED


def msg_to_plain(msg):
    """canonical plain form of a parsed message: every declared field (with
    defaults), sub-message presence, oneof cases; set-like repeated fields
    sorted."""
    from google.protobuf.descriptor import FieldDescriptor as FD

    out = {}
    desc = msg.DESCRIPTOR
    for oneof in desc.oneofs:
        out["oneof:" + oneof.name] = msg.WhichOneof(oneof.name)
    for f in desc.fields:
        v = getattr(msg, f.name)
        is_map = (f.type == FD.TYPE_MESSAGE
                  and f.message_type.GetOptions().map_entry)
        if is_map:
            vt = f.message_type.fields_by_name["value"]
            if vt.type == FD.TYPE_MESSAGE:
                out[f.name] = {k: msg_to_plain(x) for k, x in v.items()}
            else:
                out[f.name] = dict(v.items())
        elif _is_repeated(f):
            if f.type == FD.TYPE_MESSAGE:
                items = [msg_to_plain(x) for x in v]
            else:
                items = [bytes(x) if isinstance(x, (bytes, bytearray)) else x
                         for x in v]
            if f.name in SETLIKE:
                items = sorted(items, key=skey)
            out[f.name] = items
        elif f.type == FD.TYPE_MESSAGE:
            out[f.name] = msg_to_plain(v) if msg.HasField(f.name) else None
        else:
            out[f.name] = bytes(v) if isinstance(v, (bytes, bytearray)) else v
    if desc.name == "AuxData":
        out["data"] = canon_aux_data(out["type_name"], out["data"])
    if desc.name == "IR" and out.get("cfg", 0) is None:
        # an absent CFG message and an empty one carry the same content
        out["cfg"] = {"vertices": [], "edges": []}
    return out


def _unordered(t):
    return t[0] in ("set", "mapping") or any(_unordered(x) for x in t[1])


def canon_aux_data(type_name, data):
    """AuxData bytes as compared between two messages: the bytes themselves,
    except for types with a set or mapping inside (whose element order is
    free): those are compared as decoded values plus the byte count."""
    try:
        t = R.parse(type_name)
        if not _unordered(t):
            return data
        v = R.decode(bytes(data), t)
        return ("unordered-container-value", R.freeze(v), len(data))
    except Exception:  # noqa  (unknown codec, malformed: compare raw)
        return data


def aux_plain(aux):
    out = {}
    for name, (t, v) in aux.items():
        data = v if isinstance(v, bytes) else R.encode(v, R.parse(t))
        out[name] = {"type_name": t, "data": canon_aux_data(t, data)}
    return out


def spec_to_plain(spec, pb_version):
    """the plain form the written message must have, straight from the spec"""
    def block(k):
        code = data = None
        if k["kind"] == "code":
            code = {"uuid": k["uuid"].bytes, "size": k["size"],
                    "decode_mode": k["decode_mode"]}
        else:
            data = {"uuid": k["uuid"].bytes, "size": k["size"]}
        return {"oneof:value": k["kind"], "offset": k["offset"], "code": code,
                "data": data}

    def expr(e):
        const = addr = None
        if e["kind"] == "const":
            const = {"offset": e["offset"], "symbol_uuid": e["sym1"].bytes}
        else:
            addr = {"scale": e["scale"], "offset": e["offset"],
                    "symbol1_uuid": e["sym1"].bytes,
                    "symbol2_uuid": e["sym2"].bytes}
        return {"oneof:value": "addr_const" if const else "addr_addr",
                "addr_const": const, "addr_addr": addr,
                "attribute_flags": sorted(set(e["attrs"]), key=skey)}

    def interval(b):
        return {"uuid": b["uuid"].bytes,
                "blocks": sorted((block(k) for k in b["blocks"]), key=skey),
                "symbolic_expressions": {o: expr(e)
                                         for o, e in b["symexprs"].items()},
                "has_address": b["address"] is not None,
                "address": b["address"] or 0, "size": b["size"],
                "contents": b["contents"]}

    def section(s):
        return {"uuid": s["uuid"].bytes, "name": s["name"],
                "byte_intervals": sorted((interval(b) for b in s["intervals"]),
                                         key=skey),
                "section_flags": sorted(set(s["flags"]), key=skey)}

    def symbol(y):
        p = y["payload"]
        return {"uuid": y["uuid"].bytes,
                "oneof:optional_payload": {"none": None, "value": "value",
                                           "ref": "referent_uuid"}[p[0]],
                "value": p[1] if p[0] == "value" else 0,
                "referent_uuid": p[1].bytes if p[0] == "ref" else b"",
                "name": y["name"], "at_end": y["at_end"]}

    def module(m):
        return {"uuid": m["uuid"].bytes, "binary_path": m["binary_path"],
                "preferred_addr": m["preferred_addr"],
                "rebase_delta": m["rebase_delta"],
                "file_format": m["file_format"], "isa": m["isa"],
                "name": m["name"],
                "symbols": sorted((symbol(y) for y in m["symbols"]), key=skey),
                "proxies": sorted(({"uuid": p["uuid"].bytes}
                                   for p in m["proxies"]), key=skey),
                "sections": sorted((section(s) for s in m["sections"]),
                                   key=skey),
                "aux_data": aux_plain(m["aux"]),
                "entry_point": m["entry"].bytes if m["entry"] else b"",
                "byte_order": m["byte_order"]}

    vertices = []
    for m in spec["modules"]:
        for s in m["sections"]:
            for b in s["intervals"]:
                vertices += [k["uuid"].bytes for k in b["blocks"]
                             if k["kind"] == "code"]
        vertices += [p["uuid"].bytes for p in m["proxies"]]
    edges = []
    for a, b, lab in dict.fromkeys(spec["cfg"]):
        edges.append({"source_uuid": a.bytes, "target_uuid": b.bytes,
                      "label": None if lab is None else
                      {"conditional": lab[1], "direct": lab[2], "type": lab[0]}})
    return {
        "uuid": spec["uuid"].bytes,
        "modules": [module(m) for m in spec["modules"]],
        "aux_data": aux_plain(spec["aux"]),
        "version": pb_version if spec.get("version") is None else spec["version"],
        "cfg": {"vertices": sorted(vertices, key=skey),
                "edges": sorted(edges, key=skey)},
    }


def spec_to_message(spec, pb_version, tweak=None):
    """gtirb.proto.IR message built with the generated classes only."""
    from gtirb.proto import IR_pb2

    tw = tweak or {}
    msg = IR_pb2.IR()
    msg.uuid = spec["uuid"].bytes
    msg.version = pb_version if spec.get("version") is None else spec["version"]

    def fill_aux(container, aux):
        for name, (t, v) in aux.items():
            container[name].type_name = t
            container[name].data = v if isinstance(v, bytes) \
                else R.encode(v, R.parse(t))

    fill_aux(msg.aux_data, spec["aux"])
    mods = spec["modules"]
    for m in mods:
        pm = msg.modules.add()
        pm.uuid = m["uuid"].bytes
        pm.binary_path = m["binary_path"]
        pm.preferred_addr = m["preferred_addr"]
        pm.rebase_delta = m["rebase_delta"]
        pm.file_format = m["file_format"]
        pm.isa = m["isa"]
        pm.name = m["name"]
        pm.byte_order = m["byte_order"]
        if m["entry"] is not None:
            pm.entry_point = m["entry"].bytes
        fill_aux(pm.aux_data, m["aux"])
        syms = m["symbols"]
        secs = m["sections"]
        if tw.get("reverse_children"):
            syms = list(reversed(syms))
            secs = list(reversed(secs))
        for y in syms:
            py = pm.symbols.add()
            py.uuid = y["uuid"].bytes
            py.name = y["name"]
            py.at_end = y["at_end"]
            if y["payload"][0] == "value":
                py.value = y["payload"][1]
            elif y["payload"][0] == "ref":
                py.referent_uuid = y["payload"][1].bytes
        for p in m["proxies"]:
            pm.proxies.add().uuid = p["uuid"].bytes
        for s in secs:
            ps = pm.sections.add()
            ps.uuid = s["uuid"].bytes
            ps.name = s["name"]
            flags = list(s["flags"])
            if tw.get("duplicate_flags"):
                flags = flags + flags
            ps.section_flags.extend(flags)
            ivs = s["intervals"]
            for b in (reversed(ivs) if tw.get("reverse_children") else ivs):
                pb = ps.byte_intervals.add()
                pb.uuid = b["uuid"].bytes
                pb.has_address = b["address"] is not None
                if b["address"] is not None:
                    pb.address = b["address"]
                elif tw.get("stale_address"):
                    pb.address = 0x1234
                pb.size = b["size"]
                pb.contents = b["contents"]
                blocks = b["blocks"]
                for k in (reversed(blocks) if tw.get("reverse_children")
                          else blocks):
                    pk = pb.blocks.add()
                    pk.offset = k["offset"]
                    if k["kind"] == "code":
                        pk.code.uuid = k["uuid"].bytes
                        pk.code.size = k["size"]
                        pk.code.decode_mode = k["decode_mode"]
                    else:
                        pk.data.uuid = k["uuid"].bytes
                        pk.data.size = k["size"]
                for off, e in b["symexprs"].items():
                    pe = pb.symbolic_expressions[off]
                    if e["kind"] == "const":
                        pe.addr_const.offset = e["offset"]
                        pe.addr_const.symbol_uuid = e["sym1"].bytes
                    else:
                        pe.addr_addr.scale = e["scale"]
                        pe.addr_addr.offset = e["offset"]
                        pe.addr_addr.symbol1_uuid = e["sym1"].bytes
                        pe.addr_addr.symbol2_uuid = e["sym2"].bytes
                    attrs = list(e["attrs"])
                    if tw.get("duplicate_flags"):
                        attrs = attrs + attrs
                    pe.attribute_flags.extend(attrs)
    if tw.get("vertices") == "none":
        pass
    elif tw.get("vertices") == "junk":
        msg.cfg.vertices.extend([b"\x01" * 16, spec["uuid"].bytes])
    else:
        plain = spec_to_plain(spec, pb_version)
        msg.cfg.vertices.extend(plain["cfg"]["vertices"])
    for a, b, lab in dict.fromkeys(spec["cfg"]):
        pe = msg.cfg.edges.add()
        pe.source_uuid = a.bytes
        pe.target_uuid = b.bytes
        if lab is not None:
            pe.label.SetInParent()
            pe.label.type = lab[0]
            pe.label.conditional = lab[1]
            pe.label.direct = lab[2]
    if not spec["cfg"] and tw.get("vertices") != "none":
        msg.cfg.SetInParent()
    return msg


def file_bytes(msg, pb_version):
    return b"GTIRB\x00\x00" + bytes([pb_version]) + msg.SerializeToString()
