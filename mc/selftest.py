"""./check --selftest: properties of the machinery itself, asserted on the
unchanged tree (registered commands never turn these into a non-zero exit).

1. Determinism: a recorded history replayed twice from fresh objects gives
   the same fingerprint and the same observations; fix-point scenarios reach
   the same number of states under two different seeds.
2. Anti-vacuity: the drivers really collide things - counters that must be
   non-zero (cross-IR moves, subtree moves, every LazyIntervalTree branch,
   non-empty answers, structures reached with several hidden states ...).
3. Reference models agree with themselves (refcodec round trip, grammar
   printer, spec -> message -> plain form)."""

import collections
import json
import os
import random

from . import common, explore, irgen, refcodec as R


def check(cond, what, failures):
    print(("ok   " if cond else "FAIL ") + what, flush=True)
    if not cond:
        failures.append(what)


def replay_twice(sc, label, failures, n=100, depth=4):
    rng = random.Random(7)
    same = 0
    for _ in range(n):
        init = rng.choice(list(sc.initial_states()))
        hist = []
        w = sc.build(init)
        for _ in range(rng.randint(1, depth)):
            ops = [o for o in sc.ops(w) if sc.prefix_ok(o)]
            if not ops:
                break
            op = ops[rng.randrange(len(ops))]
            hist.append(op)
            sc.apply(w, op)
        fps = []
        for _ in range(2):
            w2 = sc.materialise(init, hist)
            fps.append(sc.fingerprint(w2))
        if fps[0] == fps[1]:
            same += 1
    check(same == n, "%s: %d/%d histories replay to an identical fingerprint"
          % (label, same, n), failures)


def main():
    failures = []
    from .checks import bytes19, cfgset, forest, layout, symbols, symexpr, c15

    # ---- 1. determinism of replays
    replay_twice(forest.ForestScenario("q", ["detached", "chain", "loaded"],
                                       ("C03",), idx_wide=False),
                 "forest", failures)
    replay_twice(cfgset.CfgScenario(cfgset.UNIVERSE_Q, cfgset.PAIRS_Q), "cfg",
                 failures)
    replay_twice(symbols.SymbolScenario(), "symbols", failures)
    replay_twice(symexpr.SymExprScenario(), "symexpr", failures)
    replay_twice(bytes19.BytesScenario(4), "bytes", failures)

    # ---- fix-point state counts are seed independent
    counts = []
    for seed in (1, 2):
        ctx = common.Ctx("C11", "quick", seed)
        ctx.budget = 600
        cov = explore.explore(ctx, cfgset.CfgScenario(cfgset.UNIVERSE_Q,
                                                       cfgset.PAIRS_Q))
        counts.append((cov["states"], cov["transitions"], cov["fixpoint_reached"]))
        common.close_pool()
    check(counts[0] == counts[1] and counts[0][2],
          "cfg fix-point identical under two seeds: %s" % (counts,), failures)

    # ---- 2. anti-vacuity
    layout.install_lazy_counters()
    ctx = common.Ctx("C12", "quick", 0)
    cov = explore.explore(ctx, layout.CountingLayout("quick"), max_depth=1,
                          probe_leaves=True)
    common.close_pool()
    c = cov["counters"]
    for k in ("lazy:first-build", "lazy:incremental(pending<size)",
              "lazy:rebuild(pending=size)", "lazy:rebuild(pending>size)",
              "states-with-non-empty-answers"):
        check(c.get(k, 0) > 0, "layout: counter %s = %d" % (k, c.get(k, 0)),
              failures)
    check(cov.get("summary_keys_reached_by_several_hidden_states", 0) > 100,
          "layout: %s structures reached with several hidden index states"
          % cov.get("summary_keys_reached_by_several_hidden_states"), failures)

    sc = forest.ForestScenario("q", ["chain"], ("C03",), idx_wide=False)
    w = sc.build("chain")
    ops = sc.ops(w)
    kinds = collections.Counter(o[0] + ("." + o[3] if o[0] == "set" else
                                        "." + o[2] if o[0] == "mods" else "")
                                for o in ops)
    check(len(kinds) >= 25, "forest: %d distinct operation kinds enabled in "
          "the chain state (%d operations)" % (len(kinds), len(ops)), failures)
    sc.apply(w, ["setp", "M1", "I2"])
    check(w.objs["K1"].ir is w.objs["I2"] and
          w.objs["I1"].get_by_uuid(w.uuid["K1"]) is None and
          w.objs["I2"].get_by_uuid(w.uuid["K1"]) is w.objs["K1"],
          "forest: a module move carries a 4-level subtree across IRs",
          failures)

    # ---- 3. reference models
    t = R.parse("mapping<string,tuple<sequence<int8_t>,variant<UUID,Offset>>>")
    check(R.show(t) == "mapping<string,tuple<sequence<int8_t>,variant<UUID,Offset>>>",
          "refcodec: type printer inverts parser", failures)
    import uuid

    v = {"é": ([-1, 127], ("Variant", 1, ("Offset", uuid.UUID(int=5), 9)))}
    check(R.freeze(R.decode(R.encode(v, t), t)) == R.freeze(v),
          "refcodec: decode(encode(v)) == v", failures)
    check(R.encode("é", R.parse("string")) == b"\x02" + b"\0" * 7 + "é".encode(),
          "refcodec: string length prefix counts UTF-8 bytes", failures)
    c15.selfcheck_reference()
    check(True, "c15: reference recogniser self-check", failures)
    from gtirb.version import PROTOBUF_VERSION as PV

    spec = irgen.rich_base()
    d = irgen.diff(irgen.msg_to_plain(irgen.spec_to_message(spec, PV)),
                   irgen.spec_to_plain(spec, PV))
    check(d is None, "irgen: descriptor-built message has the plain form "
          "computed from the specification (%s)" % d, failures)

    print("selftest: %d failure(s)" % len(failures))
    return 1 if failures else 0
