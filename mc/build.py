"""Stage an importable copy of /repo's Python gtirb package.

The repository tree has no version.py and no proto/*_pb2.py (CMake generates
them), and /venv's site-packages holds a *different* gtirb (the PyPI wheel).
Every check therefore stages its own package from the working tree, puts it
first on sys.path and asserts that `gtirb` was imported from the stage.
"""

import atexit
import glob
import os
import re
import shutil
import sys

REPO = os.environ.get("GTIRB_VERIF_REPO", "/repo")
VERIF = os.path.dirname(os.path.dirname(os.path.abspath(__file__)))
STAGE_ROOT = os.path.join(VERIF, ".stage")


class BuildError(Exception):
    pass


def read_version(repo):
    vals = {}
    with open(os.path.join(repo, "version.txt")) as f:
        for line in f:
            parts = line.split()
            if len(parts) == 2:
                vals[parts[0]] = parts[1]
    return vals


def render_version_py(repo):
    v = read_version(repo)
    with open(os.path.join(repo, "python", "version.py.in")) as f:
        text = f.read()
    subst = {
        "PROJECT_VERSION_MAJOR": v["VERSION_MAJOR"],
        "PROJECT_VERSION_MINOR": v["VERSION_MINOR"],
        "PROJECT_VERSION_PATCH": v["VERSION_PATCH"],
        "GTIRB_PYTHON_DEV_SUFFIX": ".dev",
        "GTIRB_PROTOBUF_VERSION": v["VERSION_PROTOBUF"],
    }
    return re.sub(r"@(\w+)@", lambda m: subst[m.group(1)], text)


def build_stage(repo=None, dest=None, quiet=True):
    """Create <dest>/gtirb from <repo>; returns dest."""
    from . import miniprotoc

    repo = repo or REPO
    if dest is None:
        dest = os.path.join(STAGE_ROOT, str(os.getpid()))
    pkg = os.path.join(dest, "gtirb")
    if os.path.exists(dest):
        shutil.rmtree(dest)
    os.makedirs(os.path.join(pkg, "proto"))
    srcs = sorted(glob.glob(os.path.join(repo, "python", "gtirb", "*.py")))
    if not srcs:
        raise BuildError("no python sources under %s" % repo)
    for s in srcs:
        shutil.copy(s, pkg)
    with open(os.path.join(pkg, "version.py"), "w") as f:
        f.write(render_version_py(repo))
    init = os.path.join(repo, "python", "gtirb", "proto", "__init__.py")
    if os.path.exists(init):
        shutil.copy(init, os.path.join(pkg, "proto"))
    else:
        open(os.path.join(pkg, "proto", "__init__.py"), "w").close()
    sources = {}
    for p in sorted(glob.glob(os.path.join(repo, "proto", "*.proto"))):
        base = os.path.basename(p)[: -len(".proto")]
        with open(p) as f:
            sources[base] = f.read()
    try:
        fds = miniprotoc.compile_set(sources)
        miniprotoc.crosscheck(sources, fds)
    except miniprotoc.ProtoSyntaxError as e:
        raise BuildError("proto compile failed: %s" % e)
    for base, fd in fds.items():
        with open(os.path.join(pkg, "proto", base + "_pb2.py"), "w") as f:
            f.write(miniprotoc.emit_pb2(fd, base))
    return dest


_staged = None


def stage_and_import(repo=None):
    """Build the stage, import gtirb from it, verify, register cleanup.
    Returns the gtirb module."""
    global _staged
    if _staged is not None:
        return _staged
    dest = build_stage(repo)
    owner = os.getpid()

    def cleanup():
        if os.getpid() == owner:
            shutil.rmtree(dest, ignore_errors=True)

    atexit.register(cleanup)
    sys.path.insert(0, dest)
    for m in list(sys.modules):
        if m == "gtirb" or m.startswith("gtirb."):
            del sys.modules[m]
    import gtirb  # noqa

    here = os.path.realpath(gtirb.__file__)
    if not here.startswith(os.path.realpath(dest) + os.sep):
        raise BuildError("gtirb imported from %s, not from stage" % here)
    _staged = gtirb
    return gtirb


def sweep_stale():
    """Remove stages of dead processes."""
    if not os.path.isdir(STAGE_ROOT):
        return
    for d in os.listdir(STAGE_ROOT):
        if d.isdigit() and not os.path.exists("/proc/" + d):
            shutil.rmtree(os.path.join(STAGE_ROOT, d), ignore_errors=True)


if __name__ == "__main__":
    # python -m mc.build <dest> [repo]: used to prepare scratch worktrees
    d = build_stage(
        sys.argv[2] if len(sys.argv) > 2 else None, sys.argv[1], quiet=False
    )
    print(d)
