"""The shared finite space of IR specifications used by C01, C02, C09, C17 and
C18: structures (skeletons x decorations) plus field deviations of a rich base
IR.  Deterministic: every process regenerates the same list."""

import copy
import re

from . import irgen

_CACHE = {}


def enum_numbers():
    if "enums" not in _CACHE:
        _CACHE["enums"] = irgen.enum_numbers_from_descriptors()
    return _CACHE["enums"]


def structure_cases(max_nodes):
    out = []
    for si, shape in enumerate(irgen.skeletons(max_nodes)):
        for v in range(4):
            out.append(("shape%d/v%d" % (si, v), irgen.decorate(shape, v)))
    return out


def deviation_cases(double=False):
    en = enum_numbers()
    base = irgen.rich_base()
    table = irgen.deviation_table(en)
    singles = list(irgen.deviations(base, table))
    singles += irgen.expr_deviations(base, en["SymAttribute"])
    singles += irgen.label_deviations(base, en["EdgeType"])
    singles += irgen.uuid_deviations(base)
    out = [("base", base)] + singles
    if double:
        # two deviations at once: second deviation applied to each singly
        # deviated spec, restricted to a different (node, field)
        nodes = list(irgen.walk(base))
        devs = []
        for i, (kind, node, _) in enumerate(nodes):
            for field, values in table.get(kind, {}).items():
                for v in values:
                    if node.get(field) != v:
                        devs.append((i, field, v))
        for a in range(len(devs)):
            for b in range(a + 1, len(devs)):
                i1, f1, v1 = devs[a]
                i2, f2, v2 = devs[b]
                if (i1, f1) == (i2, f2):
                    continue
                s = irgen.with_deviation(base, i1, f1, v1)
                if s is None:
                    continue
                s = irgen.with_deviation(s, i2, f2, v2)
                if s is None:
                    continue
                out.append(("dev2:%d.%s+%d.%s" % (i1, f1, i2, f2), s))
    return out


def all_cases(tier, double=None):
    key = (tier, double)
    if key in _CACHE:
        return _CACHE[key]
    if tier == "quick":
        cases = structure_cases(9) + deviation_cases(bool(double))
    else:
        cases = structure_cases(11) + deviation_cases(
            True if double is None else double)
    cases = cases + large_cases() + coincidence_cases() + cross_entry_cases()
    _CACHE[key] = cases
    return cases


def cross_entry_cases():
    """Self-contained IRs in which a module's entry point (and CFG edges, and
    an IR-level table) name a code block owned by ANOTHER module of the same
    IR, in both list orders, while symbol and expression references stay
    inside their module - C01's premise restricts only the latter."""
    U = irgen.U
    out = []
    for order in ("later", "earlier"):
        for own in (False, True):
            k1 = irgen.mk_block("code", 1, size=2)
            k2 = irgen.mk_block("code", 2, offset=2, size=2)
            b1 = irgen.mk_interval(3, address=0x10, size=4,
                                   contents=b"\x01\x02", blocks=[k1, k2])
            s1 = irgen.mk_section(4, ".text", flags=[1, 3], intervals=[b1])
            yb = irgen.mk_symbol(5, "start", ("ref", U(1)))
            mB = irgen.mk_module(6, "lib", sections=[s1], symbols=[yb],
                                 entry=U(2) if own else None)
            k3 = irgen.mk_block("code", 8, size=1)
            ba = irgen.mk_interval(11, address=0x40, size=8, contents=b"\x90",
                                   blocks=[k3])
            sa = irgen.mk_section(12, ".init", intervals=[ba])
            ya = irgen.mk_symbol(9, "local", ("ref", U(8)))
            mA = irgen.mk_module(13, "main", sections=[sa], symbols=[ya],
                                 entry=U(1))
            mC = irgen.mk_module(15, "stub", entry=U(8))
            mods = [mA, mC, mB] if order == "later" else [mB, mC, mA]
            ir = irgen.mk_ir(14, modules=mods,
                             cfg=[(U(8), U(1), (1, False, True)),
                                  (U(1), U(8), None)])
            out.append(("cross-entry/%s/%s" % (order, "own" if own else "none"),
                        ir))
    return out


def cross_module_cases():
    """Referentially closed IRs whose references cross module boundaries, in
    both list orders (a reference into a module listed later / earlier).
    Used for the reader/writer (C02) and identity (C09) checks only: C01 and
    C17 presuppose references that stay inside their module."""
    U = irgen.U
    out = []
    for order in ("later", "earlier"):
        k1 = irgen.mk_block("code", 1, size=2)
        k2 = irgen.mk_block("data", 2, offset=2, size=1)
        b1 = irgen.mk_interval(3, address=0x10, size=4, contents=b"\x01\x02",
                               blocks=[k1, k2])
        s1 = irgen.mk_section(4, ".text", flags=[1, 3], intervals=[b1])
        yb = irgen.mk_symbol(5, "inB", ("ref", U(1)))
        mB = irgen.mk_module(6, "B", sections=[s1], proxies=[{"uuid": U(7)}],
                             symbols=[yb], entry=U(1))
        ya1 = irgen.mk_symbol(8, "code-in-B", ("ref", U(1)))
        ya2 = irgen.mk_symbol(9, "proxy-in-B", ("ref", U(7)), at_end=True)
        ya3 = irgen.mk_symbol(10, "data-in-B", ("ref", U(2)))
        ba = irgen.mk_interval(11, address=None, size=8, contents=b"")
        ba["symexprs"] = {
            0: {"kind": "const", "offset": 1, "sym1": U(5), "attrs": [0]},
            4: {"kind": "addr", "offset": 0, "scale": 1, "sym1": U(8),
                "sym2": U(5), "attrs": []},
        }
        sa = irgen.mk_section(12, ".data", intervals=[ba])
        mA = irgen.mk_module(13, "A", sections=[sa], symbols=[ya1, ya2, ya3],
                             entry=U(1),
                             aux={"x": ("sequence<UUID>", [U(1), U(7)]),
                                  "bare": ("UUID", U(1)),
                                  "bareoff": ("Offset", ("Offset", U(2), 3)),
                                  "baresym": ("UUID", U(5))})
        mods = [mA, mB] if order == "later" else [mB, mA]
        ir = irgen.mk_ir(14, modules=mods,
                         cfg=[(U(1), U(7), None), (U(7), U(1), (1, False, True))])
        out.append(("cross-module/refs-into-%s-module" % order, ir))
    return out


def large_cases():
    """IRs of realistic magnitude: every container well past small internal
    thresholds (8, 16, 32, 64, 256, 1024, one 4 KiB page), names longer than a
    few characters, page-sized and sparse addresses, long AuxData tables with
    negative values, a byte vector ending in whole pages of zero bytes."""
    return [large_cases_for(n) for n in (9, 17, 33, 70)]


def large_cases_for(n):
    U = irgen.U
    if True:
        blocks = []
        for i in range(n):
            blocks.append(irgen.mk_block(
                "code" if i % 2 else "data", 1000 + i, offset=8 * i,
                size=8 if i % 3 else 0, decode_mode=(i % 2) * (i % 4 == 1)))
        data = bytes((i * 37) % 251 + 1 for i in range(4096)) + bytes(8192)
        b1 = irgen.mk_interval(1, address=0x601000, size=16384,
                               contents=data if n >= 33 else data[:100],
                               blocks=blocks)
        proxies = [{"uuid": U(2000 + i)} for i in range(n)]
        syms = []
        for i in range(n):
            # n symbols sharing one name, n symbols on one block
            syms.append(irgen.mk_symbol(3000 + i, "$d",
                                        ("ref", U(2000 + i))))
            syms.append(irgen.mk_symbol(
                4000 + i, "long_symbol_name_%04d_\u00e9" % i,
                ("ref", U(1001))))
        b1["symexprs"] = {
            8 * i: ({"kind": "const", "offset": i - 5, "sym1": U(3000 + i),
                     "attrs": [i % 7]} if i % 2 else
                    {"kind": "addr", "offset": -i, "scale": 1 + i % 3,
                     "sym1": U(4000 + i), "sym2": U(3000), "attrs": []})
            for i in range(n)}
        ivs = [b1] + [irgen.mk_interval(5000 + i, address=0x1000 * (i + 1),
                                        size=0x800, contents=b"\x90" * (i % 5))
                      for i in range(n)]
        secs = [irgen.mk_section(6000, ".data", flags=[1, 2], intervals=ivs)]
        secs += [irgen.mk_section(6001 + i, ".sec%d" % i, flags=[i % 6 + 1])
                 for i in range(n)]
        neg = [(-1) ** i * (i * 7919 % 30000) for i in range(300 if n < 70
                                                             else 1100)]
        m1 = irgen.mk_module(
            7000, "a_module_with_a_long_name", sections=secs, symbols=syms,
            proxies=proxies, entry=U(1001), isa=3, file_format=2,
            byte_order=2,
            aux={"functionBlocks": ("mapping<UUID,set<UUID>>",
                                    {U(1001): frozenset(U(2000 + i)
                                                        for i in range(n)),
                                     U(1003): frozenset()}),
                 "neg16": ("sequence<int16_t>", neg),
                 "names": ("mapping<string,uint64_t>",
                           {"k%d" % i: i for i in range(n * 16)})})
        more = [irgen.mk_module(7100 + i, "m%d" % i) for i in range(n)]
        cfg = [(U(1001), U(2000 + i), (i % 4, bool(i % 2), bool(i % 3 == 0)))
               for i in range(n)] + [(U(2000 + i), U(1001), None)
                                     for i in range(n)]
        ir = irgen.mk_ir(8000, modules=[m1] + more, cfg=cfg,
                         aux={"neg64": ("sequence<int64_t>",
                                        [x * 1000003 for x in neg]),
                              "allnodes": ("sequence<UUID>",
                                           [U(2000 + i) for i in range(n)]),
                              "nodeset": ("set<UUID>", frozenset(
                                  U(1000 + i) for i in range(n)))})
        return ("large/n=%d" % n, ir)


def coincidence_cases():
    """Every constant of the three module-level enums combined with values
    that mean something special to SOME file format / word size / tool:
    padded, cased and mangled names, extents ending exactly at 2^16, 2^31,
    2^32, 2^63 and 2^64, values at those bounds.  A reader or writer that
    treats one combination specially (PE section names, 32-bit address
    spaces, ...) differs from the schema on exactly one of these."""
    U = irgen.U
    en = enum_numbers()
    names = [".text\0\0\0", ".data   ", " .lead", ".TEXT", ".text", "",
             "abcdefgh", "/4", ".rdata$zzz", "__TEXT,__text"]
    extents = [(0xFFFF0000, 0x10000), (0xFFFFFFFF, 1), (1 << 32, 16),
               (0x7FFFFFF0, 0x20), (0xFFF0, 0x10), ((1 << 64) - 16, 16),
               ((1 << 63) - 8, 16), (0, 0), (0x1000, 0x1000)]
    synames = ["?f@@YAXXZ", "_start", "", "sym@plt", "sym@@GLIBC_2.2.5",
               "$d", "$t", ".L1", "main ", "type.[4]uint8"]

    def make(**kw):
        secs = []
        k = 0
        for i, nm in enumerate(names):
            ivs = []
            if i < len(extents):
                a, sz = extents[i]
                blk = [irgen.mk_block("code" if i % 2 else "data", 100 + i,
                                      offset=0, size=min(sz, 4),
                                      decode_mode=i % 2)]
                ivs = [irgen.mk_interval(200 + i, address=a, size=sz,
                                         contents=b"\x90" * min(sz, 4),
                                         blocks=blk)]
            secs.append(irgen.mk_section(300 + i, nm, flags=[i % 6 + 1],
                                         intervals=ivs))
        syms = [irgen.mk_symbol(400 + i, nm,
                                ("ref", U(100 + i)) if i < len(extents)
                                else ("value", (1 << 32) + i))
                for i, nm in enumerate(synames)]
        m = irgen.mk_module(500, "mod.exe", sections=secs, symbols=syms,
                            entry=U(101), preferred_addr=0x400000, **kw)
        return irgen.mk_ir(501, modules=[m],
                           cfg=[(U(101), U(103), (1, True, False))])

    out = []
    for field, key in (("file_format", "FileFormat"), ("isa", "ISA"),
                       ("byte_order", "ByteOrder")):
        for num in en[key]:
            out.append(("coincidence/%s=%d" % (field, num),
                        make(**{field: num})))
    return out


def reader_cases(tier):
    """C02 / C09: the C01 space without double deviations, plus the
    cross-module cases"""
    key = ("reader", tier)
    if key not in _CACHE:
        _CACHE[key] = all_cases(tier, double=False) + cross_module_cases()
    return _CACHE[key]


def path_class(diff_text):
    """'.modules[0].sections[1][1]: a vs b' -> '.modules[].sections[][1]'"""
    if diff_text is None:
        return ""
    path = diff_text.split(":", 1)[0]
    m = re.match(r"^(.*?)((?:\[\d+\])?)$", path)
    head, last = m.group(1), m.group(2)
    return re.sub(r"\[\d+\]", "[]", head) + last


def chunks(n, size):
    return [(i, min(n, i + size)) for i in range(0, n, size)]
