"""The shared finite space of IR specifications used by C01, C02, C09, C17 and
C18: structures (skeletons x decorations) plus field deviations of a rich base
IR.  Deterministic: every process regenerates the same list."""

import copy
import re

from . import irgen

_CACHE = {}


def enum_numbers():
    if "enums" not in _CACHE:
        _CACHE["enums"] = irgen.enum_numbers_from_descriptors()
    return _CACHE["enums"]


def structure_cases(max_nodes):
    out = []
    for si, shape in enumerate(irgen.skeletons(max_nodes)):
        for v in range(4):
            out.append(("shape%d/v%d" % (si, v), irgen.decorate(shape, v)))
    return out


def deviation_cases(double=False):
    en = enum_numbers()
    base = irgen.rich_base()
    table = irgen.deviation_table(en)
    singles = list(irgen.deviations(base, table))
    singles += irgen.expr_deviations(base, en["SymAttribute"])
    singles += irgen.label_deviations(base, en["EdgeType"])
    singles += irgen.uuid_deviations(base)
    out = [("base", base)] + singles
    if double:
        # two deviations at once: second deviation applied to each singly
        # deviated spec, restricted to a different (node, field)
        nodes = list(irgen.walk(base))
        devs = []
        for i, (kind, node, _) in enumerate(nodes):
            for field, values in table.get(kind, {}).items():
                for v in values:
                    if node.get(field) != v:
                        devs.append((i, field, v))
        for a in range(len(devs)):
            for b in range(a + 1, len(devs)):
                i1, f1, v1 = devs[a]
                i2, f2, v2 = devs[b]
                if (i1, f1) == (i2, f2):
                    continue
                s = irgen.with_deviation(base, i1, f1, v1)
                if s is None:
                    continue
                s = irgen.with_deviation(s, i2, f2, v2)
                if s is None:
                    continue
                out.append(("dev2:%d.%s+%d.%s" % (i1, f1, i2, f2), s))
    return out


def all_cases(tier, double=None):
    key = (tier, double)
    if key in _CACHE:
        return _CACHE[key]
    if tier == "quick":
        cases = structure_cases(9) + deviation_cases(bool(double))
    else:
        cases = structure_cases(11) + deviation_cases(
            True if double is None else double)
    _CACHE[key] = cases
    return cases


def cross_module_cases():
    """Referentially closed IRs whose references cross module boundaries, in
    both list orders (a reference into a module listed later / earlier).
    Used for the reader/writer (C02) and identity (C09) checks only: C01 and
    C17 presuppose references that stay inside their module."""
    U = irgen.U
    out = []
    for order in ("later", "earlier"):
        k1 = irgen.mk_block("code", 1, size=2)
        k2 = irgen.mk_block("data", 2, offset=2, size=1)
        b1 = irgen.mk_interval(3, address=0x10, size=4, contents=b"\x01\x02",
                               blocks=[k1, k2])
        s1 = irgen.mk_section(4, ".text", flags=[1, 3], intervals=[b1])
        yb = irgen.mk_symbol(5, "inB", ("ref", U(1)))
        mB = irgen.mk_module(6, "B", sections=[s1], proxies=[{"uuid": U(7)}],
                             symbols=[yb], entry=U(1))
        ya1 = irgen.mk_symbol(8, "code-in-B", ("ref", U(1)))
        ya2 = irgen.mk_symbol(9, "proxy-in-B", ("ref", U(7)), at_end=True)
        ya3 = irgen.mk_symbol(10, "data-in-B", ("ref", U(2)))
        ba = irgen.mk_interval(11, address=None, size=8, contents=b"")
        ba["symexprs"] = {
            0: {"kind": "const", "offset": 1, "sym1": U(5), "attrs": [0]},
            4: {"kind": "addr", "offset": 0, "scale": 1, "sym1": U(8),
                "sym2": U(5), "attrs": []},
        }
        sa = irgen.mk_section(12, ".data", intervals=[ba])
        mA = irgen.mk_module(13, "A", sections=[sa], symbols=[ya1, ya2, ya3],
                             entry=U(1),
                             aux={"x": ("sequence<UUID>", [U(1), U(7)]),
                                  "bare": ("UUID", U(1)),
                                  "bareoff": ("Offset", ("Offset", U(2), 3)),
                                  "baresym": ("UUID", U(5))})
        mods = [mA, mB] if order == "later" else [mB, mA]
        ir = irgen.mk_ir(14, modules=mods,
                         cfg=[(U(1), U(7), None), (U(7), U(1), (1, False, True))])
        out.append(("cross-module/refs-into-%s-module" % order, ir))
    return out


def reader_cases(tier):
    """C02 / C09: the C01 space without double deviations, plus the
    cross-module cases"""
    key = ("reader", tier)
    if key not in _CACHE:
        _CACHE[key] = all_cases(tier, double=False) + cross_module_cases()
    return _CACHE[key]


def path_class(diff_text):
    """'.modules[0].sections[1][1]: a vs b' -> '.modules[].sections[][1]'"""
    if diff_text is None:
        return ""
    path = diff_text.split(":", 1)[0]
    m = re.match(r"^(.*?)((?:\[\d+\])?)$", path)
    head, last = m.group(1), m.group(2)
    return re.sub(r"\[\d+\]", "[]", head) + last


def chunks(n, size):
    return [(i, min(n, i + size)) for i in range(0, n, size)]
