"""Generates /verif/MANIFEST.json from the table below.
Run: /venv/bin/python -m mc.manifest   (validates against the schema when
jsonschema is importable)."""

import json
import os

VERIF = os.path.dirname(os.path.dirname(os.path.abspath(__file__)))

MC = "model_checking"
EX = "exploration"
FE = "fault_enumeration"

# id -> (implemented, category, technique, text, note, design_ref)
TABLE = {
    "C15": (
        True,
        EX,
        "exhaustive enumeration of all strings over small alphabets up to a "
        "length bound, differential against a reference recogniser",
        "Every string over {a,<,>,,} up to length 12 (quick) / 14 (thorough) "
        "and over an alphabet with space / multi-byte / second name character "
        "up to length 8 is parsed by Serialization._parse_type and by an "
        "independent recursive-descent recogniser; acceptance, tree shape and "
        "exception class must agree, also through Serialization.encode/decode; "
        "after every batch of calls all strings of length <= 5 are parsed "
        "again (the parser must be a pure function of its argument). "
        "The grammar has no state, so complete enumeration of the input space "
        "up to a length is the exhaustive exploration that applies.",
        "Trusted: the 40-line reference recogniser; strings longer than the "
        "bound and nesting beyond the recursion limit are not covered.",
        "3/C15",
    ),
}

TABLE.update({
    "C03": (
        True,
        MC,
        "explicit-state BFS to fix-point over operation histories executed "
        "on the real objects, forest reference model, heap-fingerprint dedup",
        "All histories (any length: the search reaches a fix-point over the "
        "pool) of parent-attribute assignments, set add/discard/remove/pop/"
        "clear/update/|=/-=/^=/&=, module-list append/insert/extend/+=/del/"
        "slice and extended-slice assignment/pop/remove/clear/reverse, "
        "constructors with parent or children arguments and save+load, with "
        "operands that are lists, sets, frozensets, one-shot generators and "
        "the LIVE collections of this or another parent (x.update(y.sections), "
        "ir2.modules.extend(ir1.modules), Section(byte_intervals=s."
        "byte_intervals)), and observations (lookups, aggregate iterators) as "
        "operations of the alphabet, over a "
        "pool of 2 IRs, 2 modules and one node of every other kind and a second "
        "pool with 2 sections, 2 intervals, a code and a data block (thorough: "
        "two wider pools), a third pool with 3 modules in 2 IRs for list index "
        "arithmetic, starting from detached nodes, a linked chain, a "
        "loaded file and two loads of one file; in every state every IR's "
        "get_by_uuid is compared, for every UUID of the pool and a foreign "
        "one, with the node reachable by public iteration.",
        "Trusted: Forest model and the fingerprint abstraction (LazyInterval"
        "Tree instances skipped). Pools have at most 2 siblings per container;"
        " the two-loads scenario is depth-bounded, not a fix-point.",
        "3/C03",
    ),
    "C04": (
        True,
        MC,
        "explicit-state BFS to fix-point over operation histories executed "
        "on the real objects, forest reference model, heap-fingerprint dedup",
        "Same exploration as C03 with the containment oracle: after every "
        "transition the structure read from both ends (parent attributes and "
        "collections) must agree, equal the model forest (a move removes from "
        "the previous owner, nothing appears twice), leave every attribute of "
        "every node unchanged, and all derived accessors (.ir/.module/"
        ".section, aggregate iterators) must equal the model's comprehension;"
        " attribute edits must touch only their node; plus an enumerated "
        "isolation sub-check for default and shared constructor arguments.",
        "Trusted: Forest model; fingerprint abstraction as for C03.",
        "3/C04",
    ),
})

TABLE.update({
    "C07": (
        True,
        EX,
        "exhaustive enumeration of AuxData type trees up to a depth/arity "
        "bound x boundary-value tables, differential against a reference codec",
        "Every type tree over the 15 leaves and 5 containers up to depth 2 "
        "(quick: binary containers at depth 2 over one leaf per codec class; "
        "thorough: all, plus depth 3 over leaf classes and arity 3) is paired "
        "with boundary values (all 8-bit integers, 2^k+-1 and bounds for wider "
        "ones, NaN payloads / infinities / signed zero / subnormals, every "
        "string of length <=3 over NUL, delimiters and 2-,3-,4-byte UTF-8 "
        "characters, attached and unattached UUIDs and Offsets, empty and "
        "nested containers, every variant alternative). decode(encode(v)) "
        "must equal v bit for bit, attached UUIDs must come back as the node "
        "objects, and exact consumption is observed by framing the value "
        "between sentinels and in a two-element sequence; for all depth<=1 "
        "types also through an AuxData table of an IR and of a module (save, "
        "load, .data). Encodes and saves that FAIL part-way are interleaved "
        "with the cases (nothing may leak into the next table). The codec is a pure "
        "function of (type, value), so complete enumeration of a bounded input "
        "space is the exhaustive exploration that applies.",
        "Trusted: mc/refcodec.py value model; set elements and mapping keys "
        "are restricted to hashable, NaN-free Python values.",
        "3/C07",
    ),
    "C08": (
        True,
        EX,
        "exhaustive enumeration of (type, value) pairs; byte-for-byte "
        "comparison with an independent encoder and cross-decoding by the "
        "repository's Java codec",
        "Same (type, value) space as C07. The bytes of Serialization.encode "
        "must equal those of mc/refcodec.py (a transcription of the "
        "Serialization Format of AuxData.hpp; sets and mappings up to element "
        "order), reference bytes (also with another element order) must decode "
        "to the same value, and for every type the Java codec supports one JVM "
        "decodes gtirb's bytes to the same canonical dump and gtirb decodes "
        "Java's re-encoding to the same value.",
        "Trusted: mc/refcodec.py; javac-compiled java/com/grammatech/gtirb/"
        "auxdatacodec from the working tree with a compile-only ByteString "
        "stub; the C++ codec cannot be built in this image.",
        "3/C08",
    ),
})

TABLE.update({
    "C19": (
        True,
        MC,
        "explicit-state BFS to fix-point over size / initialized_size / "
        "contents histories on the real ByteInterval, (size, bytes) model",
        "All histories (fix-point) of size assignments 0..4, initialized_size "
        "assignments not above size, whole-content replacement (by a "
        "bytearray and by an immutable bytes object), in-place "
        "byte edits, appends and deletions and save+load, from four initial "
        "intervals (empty, full, all-uninitialised, loaded). In every state: "
        "initialized_size == stored bytes == model bytes, stored <= size, the "
        "IR saves and loads back equal, and for two blocks every (offset, "
        "size) in {0,1,3,6}^2, interval addresses None/0/5 and probe points "
        "-1..10 the block's address, contents, contains_offset and "
        "contains_address equal their definitions; a neighbouring interval "
        "built from the same caller-owned bytearray and that bytearray itself "
        "must never change; initialized_size growth by 2^k and 2^k+-1 up to "
        "4 MiB on buffers of 0, 1 and 8 bytes; all constructor argument "
        "combinations (size x initialized_size x contents length) are checked "
        "for ValueError exactly when initialized_size > size.",
        "Trusted: the two-field model. Sizes above 5 bytes are outside the "
        "bound.",
        "3/C19",
    ),
})

TABLE.update({
    "C11": (
        True,
        MC,
        "explicit-state BFS to fix-point over set-operation histories on the "
        "real CFG object, Python set as reference model",
        "All histories (fix-point over every subset of a 5-edge universe - "
        "thorough: 8 edges - and every reachable multigraph key layout and "
        "node-presence pattern) of add, discard, remove, pop, clear, update "
        "(also with a repeated edge), |=, &=, -=, ^= (also with the CFG "
        "itself), membership tests as operations, discards through the "
        "world's canonical Edge object and through a fresh equal one. The universe has a self-loop on a detached proxy, three "
        "parallel edges differing only in label (None vs all-false label vs "
        "another) and opposite directions. After every transition len, "
        "iteration (no duplicates), membership of every universe edge, "
        "out_edges/in_edges of every node and outgoing_edges/incoming_edges "
        "of attached and detached nodes are compared with the set model; "
        "once per state the binary operators, comparisons, isdisjoint and "
        "CFG(iterable) are compared with the built-in set.",
        "Trusted: the set model. Edge universes larger than 8 edges / 3 "
        "nodes are outside the bound.",
        "3/C11",
    ),
})

_LAYOUT_TECH = (
    "explicit-state exploration of all edit/lookup histories up to a depth "
    "bound on the real objects; fresh-scan oracle in every reached state; "
    "cross-schedule differential on states sharing one public structure")
_LAYOUT_NOTE = (
    "Trusted: the fresh-scan oracle. Depth-bounded (quick: every history of "
    "<= 2 operations from 3 initial states incl. one with all indexes "
    "materialised, thorough: <= 3 and a second pool at addresses next to "
    "2^64); value domains address {None,0,2}, interval size {0,2,4}, block "
    "offset/size {0,1,3}.")
TABLE.update({
    "C05": (
        True, MC, _LAYOUT_TECH,
        "Pool: IR > 2 modules > 2 sections, 4 byte intervals (3 in one "
        "section), 4 blocks (3 in one interval, code and data) so that "
        "first-build, incremental-replay and rebuild paths of the lazy index "
        "are all taken (counted in the evidence). A second, deeper exploration "
        "(<= 3 operations quick, <= 5 thorough) uses only the two 'movers' "
        "(attach / detach / edit while away / come back) and lookups. Alphabet "
        "(93 operations): "
        "interval address/size edits, block offset/size edits, block and "
        "interval moves by setter and by add/discard/update/clear, section "
        "and module moves, four kinds of lookups, save+load. Every reached "
        "state is probed at every interval, section, module and the IR with "
        "every point -1..8 and 14 ranges (stepped, empty, reversed; thorough: "
        "all range(a,b,s), 0<=a<=b<=8, s<=3) for byte/code/data_blocks_on/at "
        "and the offset variants; interval scope must equal the fresh scan "
        "exactly, wider scopes must satisfy Must <= R <= May, each block "
        "once, kind variants must equal the filtered byte variant.",
        _LAYOUT_NOTE, "3/C05"),
    "C06": (
        True, MC, _LAYOUT_TECH,
        "Same exploration as C05; in every reached state byte_intervals_on/at "
        "on sections, modules and the IR, sections_on/at on modules and the "
        "IR and Section.address/size are compared for every query with the "
        "fresh scan of the current structure (exact equality, each member "
        "once).",
        _LAYOUT_NOTE, "3/C06"),
    "C12": (
        True, MC, _LAYOUT_TECH,
        "Same exploration as C05/C06, in which lookups (all indexes, one "
        "interval, one section, IR-wide) are ordinary operations, so every "
        "placement of lookups between the edits of a history within the bound "
        "is a distinct explored schedule. Oracle-free differential: all "
        "reached states are grouped by their public structure; the complete "
        "answer vector (every scope, method and query, plus section extents) "
        "must be identical within a group, i.e. independent of which lookups "
        "happened when. The evidence reports how many structures were reached "
        "with several distinct hidden index states and how often each "
        "LazyIntervalTree branch (first build, incremental, rebuild with "
        "pending = and > size) was taken.",
        _LAYOUT_NOTE, "3/C12"),
})

TABLE.update({
    "C10": (
        True, MC,
        "explicit-state BFS to fix-point over rename / payload / membership "
        "/ block-move histories on the real objects, fresh-scan oracle",
        "All histories (fix-point: 11 664 states quick, 26k+ thorough) over "
        "2 symbols (thorough also 3) with names from {'', 'a'} (thorough + "
        "'b'), payloads code block / proxy / 0 / None (thorough + data block, "
        "7), modules M1 / M2 / none: renames, referent= and value= "
        "assignments, symbol moves by setter and by add / discard / remove / "
        "pop / clear / update / ^= / &= / -= on both modules' symbol sets, "
        "moves of the section (hence its blocks) and of the proxy between "
        "modules and out, block detach/attach, constructors with payload and "
        "module, save+load. After every transition symbols_named for every "
        "module and name (plus unused names) and references of every block "
        "and proxy must equal the scan of the current module's symbols, each "
        "symbol once; public symbol attributes must equal a per-symbol model.",
        "Trusted: scan oracle and tuple model. Two or three symbols, two "
        "modules.",
        "3/C10"),
})

TABLE.update({
    "C13": (
        True, MC,
        "explicit-state BFS to fix-point over mapping-operation / address / "
        "move histories on the real ByteInterval, dict shadow + scan oracle",
        "All histories (fix-point, ~7.5k states) of item set / delete, pop "
        "with and without default, popitem, setdefault, update from a dict "
        "and from pairs, clear, whole-mapping assignment (from a dict, from "
        "another interval's mapping and from itself), interval address "
        "{None,0,2} and size {0,2,4} edits, interval moves between sections "
        "and out, on keys {0,1,3} (thorough: + 2^64-1, 3 expressions incl. "
        "two equal-but-distinct objects), from empty, populated and loaded "
        "initial states. Every state is probed with points -1..8 and 11 "
        "ranges (stepped ranges starting below, at and inside the interval, "
        "empty and reversed): on the interval the (interval, offset, "
        "expression) triples must equal the scan in increasing offset order "
        "(nothing without an address), on section / module / IR Must <= R "
        "<= May with each triple once.",
        "Trusted: dict shadow and scan oracle.",
        "3/C13"),
    "C16": (
        True, MC,
        "explicit-state BFS to fix-point; every mutating collection call is "
        "executed on the real wrapper and on a built-in list/set/dict shadow "
        "(refinement check), every state probed with the non-mutating calls",
        "The forest exploration of C03/C04 (module list: append, insert, "
        "extend, +=, item / slice / extended-slice assignment and deletion, "
        "pop, remove, clear, reverse with members, non-members, duplicates "
        "and modules owned by another IR; five node sets: add, discard, "
        "remove, pop, clear, update with 0-2 iterables, |=, -=, ^=, &=) with "
        "the refinement oracle: same exception class and return value as the "
        "built-in, resulting list a duplicate-free subsequence of the "
        "built-in result, failed operations leave a consistent forest. Every "
        "state is additionally probed with |, &, -, ^ and their reflected "
        "forms, ==, !=, <=, <, >=, >, isdisjoint with plain sets on either "
        "side, len, in, iteration, indexing, slicing (plain list results), "
        "index, count, reversed. The symexpr exploration adds the full "
        "mutable-mapping interface of symbolic_expressions against dict "
        "(order = offset order).",
        "Trusted: built-in list/set/dict as the specification; Forest model.",
        "3/C16"),
})

_IR_NOTE = (
    "Trusted: mc/irgen.py (specification -> expected snapshot / expected "
    "message), mc/miniprotoc.py, mc/refcodec.py. IRs larger than the node "
    "bound and more than two simultaneous boundary deviations are outside "
    "the bound.")
TABLE.update({
    "C01": (
        True, MC,
        "exhaustive enumeration of a bounded space of IR specifications; each "
        "executed through build -> save -> load -> save on the real code and "
        "compared with a specification-derived oracle",
        "Every containment shape with fan-out <= 2 and <= 9 nodes (quick; 11 "
        "thorough) x 4 reference decorations (symbol payloads of every kind, "
        "entry points, both expression kinds incl. payload-identical twins "
        "with different attributes, known and unknown attribute numbers, "
        "self-loop / parallel / labelled and unlabelled edges, AuxData at IR "
        "and module level incl. unknown types), plus every single (thorough: "
        "every pair of) boundary-value deviation of a 22-node base IR "
        "(address None/0/2^64-1, int64 bounds, empty / non-ASCII / long "
        "names, every constant of every schema enum, nil and all-ones UUIDs, "
        "zero-sized and overlapping twin blocks), each built in 5 construction "
        "orders plus a sixth that builds a slightly different IR, saves, loads "
        "and finishes the LOADED IR by public edits (AuxData completed in "
        "place after reading, renames). Oracle: the snapshot of the API-built IR equals the "
        "specification's; the loaded IR's snapshot equals the original's; "
        "deep_eq holds both ways; the re-saved message is canonically equal.",
        _IR_NOTE, "3/C01"),
    "C02": (
        True, MC,
        "exhaustive enumeration of IR specifications; writer output parsed "
        "with descriptor classes vs schema-side expectation; reader fed "
        "descriptor-built messages; both protobuf backends in child processes",
        "For every specification of the C01 space (without double deviations) "
        "and under each of the upb and pure-Python protobuf backends (each in "
        "its own process; the evidence records api_implementation.Type()): "
        "the bytes of save are the exact 8-byte header plus a message whose "
        "canonical plain form (every declared field incl. defaults, "
        "sub-message presence, oneof cases, vertex list, 16-byte UUIDs, "
        "AuxData bytes from the reference codec) equals the one computed from "
        "the specification alone; and six messages built directly with the "
        "generated classes (plain, children reversed, duplicated flags, "
        "has_address=false with a stale address, vertex list absent, vertex "
        "list arbitrary) load into IRs whose snapshot equals the "
        "specification. Enum constants come from the descriptors, so a "
        "constant missing from a Python Enum is reported.",
        _IR_NOTE, "3/C02"),
    "C09": (
        True, MC,
        "exhaustive enumeration of loadable files and of single reference "
        "faults; identity oracle over the containment index",
        "Every specification of the C01 space is loaded from the API "
        "writer's bytes (twice: the two loads must share no object) and from "
        "a descriptor-built message; symbol referents, entry points, edge "
        "endpoints, expression symbols and AuxData UUID/Offset entries (IR "
        "and module level) must be the very objects reached through "
        "containment, unattached UUIDs plain UUID values - also after another "
        "IR that merely mentions the same UUIDs was loaded and read, which in "
        "turn must get plain UUIDs. Fault side: every reference field of 7 "
        "base messages (thorough 41) retargeted to a fresh UUID and to one "
        "node of every wrong kind must raise DeserializationError.",
        _IR_NOTE, "3/C09"),
})

TABLE.update({
    "C14": (
        True, MC,
        "exhaustive enumeration of action histories over save/load "
        "generations for a catalogue of tables, executed on the real code, "
        "byte-level model",
        "37 tables (16 known types with canonical bytes incl. tuples / "
        "variants / mappings with mutable members, 4 known types with "
        "non-canonical but decodable bytes, 2 wholly unknown types, 4 "
        "partially unknown types whose unknown part is reached by the bytes "
        "and 11 where it is not - with the unknown name at every sibling "
        "position next to parametrised siblings), at IR and at module level; all sequences of "
        "{leave, read, read twice, read + mutate in place, assign, assign "
        "after read, change type name with / without a prior read, assign "
        "the same type name} over 1-3 (thorough 1-4) save/load generations; "
        "generation 0 is a file built with the descriptor classes. After "
        "every save the written type name and bytes are compared with the "
        "model: untouched => byte-identical; unknown name anywhere in the "
        "type => unchanged even after a read; otherwise => reference encoding "
        "of the current value under the current type name (never the loaded "
        "bytes when those differ).",
        "Trusted: mc/refcodec.py and the table catalogue. Re-tagging is "
        "exercised for Addr<->uint64_t, int8_t->int64_t, "
        "sequence<uint8_t>->sequence<uint64_t>.",
        "3/C14"),
    "C17": (
        True, FE,
        "complete single-fault enumeration over base files (truncations, bit "
        "flips, byte substitutions, header bytes, structural message faults), "
        "coherence validator on every returned IR",
        "7 base files (quick; 15 thorough; 170-1100 bytes, one written by the "
        "API, the others built with the descriptor classes; together every "
        "message type, oneof case and reference kind). Every truncation, "
        "every single-bit flip, 16 (thorough: all 255) substitutions of every "
        "byte, every header byte x 256 values, and per file ~150 structural "
        "faults: every ordered pair of node UUIDs made equal (with and without "
        "the references following), UUIDs of length "
        "0/15/17, undefined enum numbers, cleared oneofs, interval size below "
        "contents, message/header version mismatches, nodes listed twice. "
        "Outcome must be an exception (ValueError specifically for magic / "
        "version faults) or an IR that passes the coherence validator (C03 "
        "and C04 conditions, reference kinds, attached referents, contents "
        "<= size, saves and reloads deep_eq); each load runs under a 5 s "
        "alarm.",
        "Trusted: the coherence validator and irgen message builder. Two "
        "simultaneous faults are outside the bound.",
        "3/C17"),
    "C18": (
        True, MC,
        "exhaustive all-pairs comparison over the enumerated single-field "
        "perturbations of a base IR, executed on real objects, "
        "specification-derived expected value",
        "369 variants of a 22-node base IR: every single deviation of every "
        "compared attribute from the boundary tables, every UUID changed, "
        "every removable child removed, a child of every kind added to every "
        "parent, every edge removed / relabelled (None <-> all-false label) / "
        "reversed, expressions removed / moved / kind-switched / attributes "
        "changed / symbols swapped, payload kind switches, entry point "
        "changes, block kind switch with equal UUID/offset/size, IR version, "
        "AuxData key added / removed, plus uncompared changes (AuxData value, "
        "module order, edge insertion order, construction order, save/load "
        "copies). For ALL 136k ordered pairs a.deep_eq(b) must equal equality "
        "of the compared content computed from the two specifications, "
        "likewise CFG.deep_eq, and node-level deep_eq for every UUID-matched "
        "node pair between the base and each variant in both directions; and "
        "a compare / edit one side in place / compare-again pass (deep_eq must "
        "not depend on earlier calls).",
        "Trusted: ir_snap / node_snap in mc/checks/c18.py.",
        "3/C18"),
})

PENDING = []


_SW = ("the scripts of mc/checks/wide.py (DESIGN.md 2.5) are run for every "
       "n in 0..40, 63..66, 127..129, 255..257 (thorough: ..1025) with "
       "every operand size k in {0,1,2,n/8,n/8+1,n/2,n-1,n}: ")
MAGNITUDE = {
    "C03": _SW + "five owning relations x target owner in the same IR / "
    "another IR / unattached x 16 set operations and constructors, module "
    "lists of n modules; UUID tables of both IRs against reachability.",
    "C04": _SW + "as C03 with the both-ends oracle.",
    "C16": _SW + "as C03 with the built-in set/list/dict shadows; binary "
    "operators must not mutate; mapping of n expressions.",
    "C05": _SW + "an interval of n blocks, cold / warm index x six edit "
    "batches, all lookups at four scopes against a fresh scan.",
    "C12": _SW + "as C05 (warm vs cold index must agree with the scan).",
    "C06": _SW + "a section of n intervals: extents and lookups after "
    "discard/re-add, bulk moves, address edits.",
    "C13": _SW + "n expressions dense (step 2, 8) and sparse, unit and "
    "stepped queries at four scopes.",
    "C10": _SW + "n symbols of one name / one referent added one by one, "
    "renamed, retargeted, moved, discarded.",
    "C11": _SW + "CFGs of n edges, operands given as set, frozenset, keys "
    "view, list and CFG.",
    "C18": "large IRs (9/17/33/70 children in every container): equal "
    "copies by independent construction and by load, 29 single perturbations.",
    "C19": "stored bytes followed by 0..12288 zero bytes through save+load "
    "(page-sized tails), block views.",
    "C17": "1 and 2 MiB files with every header fault through "
    "load_protobuf_file and load_protobuf(path).",
    "C07": "containers of every length 0..69 and 127..4097 for every leaf "
    "type (sequence, set, mapping key / value, nested in tuple / sequence / "
    "mapping<_,set<_>>).",
    "C08": "the C07 long containers, byte for byte.",
    "C14": "tables of 1000-2100 entries through every action sequence.",
    "C15": "names with up to 1000 fields, nesting depth 200, 8192-character "
    "names and the sanctioned AuxData schemas, each also with one delimiter "
    "dropped / doubled / swapped.",
    "C01": "four large IRs (9/17/33/70 children everywhere, 4 KiB data + 8 KiB "
    "zero tail, tables of 300-1100 elements with negative values).",
    "C02": "the large IRs of C01 in both directions.",
    "C09": "the large IRs of C01 (set<UUID> / sequence<UUID> of up to 70 "
    "attached nodes).",
}


_CL = (" CLONES: copy.deepcopy and pickle copies of a large IR (cold and "
       "warm indexes) are checked with the whole-IR oracle (mc/oracle.py) "
       "before and after edits to the copy, and the original afterwards.")
for _p in ("C03", "C04", "C05", "C06", "C10", "C11", "C12", "C13", "C18",
           "C19"):
    MAGNITUDE[_p] = MAGNITUDE[_p] + _CL
MAGNITUDE["C07"] += (" Every value is also encoded in every other legal "
                     "Python shape (tuple / bytes / bytearray / range / "
                     "frozenset / keys view / OrderedDict / mappingproxy / "
                     "list) and decoded from bytearray / memoryview / stream.")
MAGNITUDE["C08"] += " Alternative value shapes as in C07."
MAGNITUDE["C01"] += (" COINCIDENCES: every constant of the module enums x "
                     "padded / cased / mangled names and extents ending at "
                     "2^16, 2^31, 2^32, 2^63, 2^64; saving by path over an "
                     "existing longer file.")
MAGNITUDE["C02"] += (" Coincidence cases as in C01; a second save after "
                     "editing every node.")
MAGNITUDE["C19"] += (" Coincidence cases (enum constant x extent at 2^k) "
                     "through size / initialized_size assignments and "
                     "save+load.")
MAGNITUDE["C17"] += (" Direct dangling / ill-typed reference faults; all "
                     "structural faults a second time under python -O.")
MAGNITUDE["C10"] += (" Names that are glob / regex / format patterns next "
                     "to names they would match, NFC vs NFD, NUL.")


_ST = (" STORIES: every history to depth 2 (thorough: 3, time-capped) over a "
       "107-operation alphabet mixing all features on one medium IR, whole-IR "
       "oracle after every transition and on a deep copy and a save+load copy "
       "of every expanded state (mc/checks/story.py); the same oracle over all "
       "5160 IRs of the shared case space as built and as loaded.")
for _p in ("C01", "C03", "C04", "C05", "C06", "C10", "C11", "C12", "C13",
           "C18"):
    MAGNITUDE[_p] = MAGNITUDE[_p] + _ST


def build():
    checks = []
    na = []
    for pid in sorted(set(TABLE) | set(PENDING)):
        if pid in TABLE and TABLE[pid][0]:
            _, cat, tech, text, note, ref = TABLE[pid]
            if pid in MAGNITUDE:
                text = text + " MAGNITUDE: " + MAGNITUDE[pid]
                tech = tech + "; plus a parametric magnitude sweep (every "\
                    "size of a boundary-dense list x every operand size x "\
                    "every operation of a fixed script, same oracles)"
            checks.append(
                {
                    "property_id": pid,
                    "quick_cmd": "./check %s quick" % pid,
                    "thorough_cmd": "./check %s thorough" % pid,
                    "evidence_file": "/verif/evidence/%s.json" % pid,
                    "replay_cmd_template": "./check --replay {path}",
                    "engine": "mc-explorer",
                    "level_claimed": {
                        "category": cat,
                        "text": text,
                        "design_ref": "DESIGN.md section " + ref,
                    },
                    "level_note": note,
                    "technique": tech,
                }
            )
        else:
            na.append(
                {
                    "property_id": pid,
                    "reason": "not claimed yet: the bounded-exhaustive check "
                    "for this property (DESIGN.md section 3) is still being "
                    "built; model checking does apply to it",
                }
            )
    return {
        "version": 1,
        "setup_cmd": "./setup.sh",
        "hooks": {
            "guard": "GTIRB_VERIF",
            "enable": "no source hooks are needed: every check stages "
            "/repo/python/gtirb + generated proto modules into "
            "/verif/.stage/<pid> and observes through the public API",
            "baseline_off_cmd": "cd /repo && /venv/bin/python -m pytest -ra -q "
            "-p no:cacheprovider --timeout=900 "
            "--continue-on-collection-errors",
            "source_commits": [],
            "add_only": True,
        },
        "engines": [
            {
                "name": "mc-explorer",
                "path": "/verif/mc",
                "serves_properties": [c["property_id"] for c in checks],
                "kind_free_text": "hand-written explicit-state / exhaustive-"
                "input explorer that executes the real gtirb code staged from "
                "/repo against small reference models",
            }
        ],
        "checks": checks,
        "not_applicable": na,
        "notes": "All checks run the implementation itself (no abstract "
        "model): states are operation histories replayed on fresh objects, "
        "deduplicated by a canonical heap fingerprint.  See DESIGN.md.",
    }


def main():
    m = build()
    path = os.path.join(VERIF, "MANIFEST.json")
    with open(path, "w") as f:
        json.dump(m, f, indent=1)
        f.write("\n")
    try:
        import jsonschema

        with open("/root/.vp/MANIFEST.schema.json") as f:
            jsonschema.validate(m, json.load(f))
        print("MANIFEST.json valid; %d checks" % len(m["checks"]))
    except ImportError:
        print("MANIFEST.json written (jsonschema not importable here)")


if __name__ == "__main__":
    main()
