"""C09 - after load every reference is the attached object itself; files with
a dangling or ill-typed reference are rejected with DeserializationError.

Identity side: every IR specification of the shared case space is loaded
(from the API writer's bytes and from a message built with the descriptor
classes) and every reference is compared by identity with the object reached
through containment.  Fault side: every reference field of a set of base
messages is retargeted to a fresh UUID and to one node of every kind."""

import io
import uuid as uuidlib

from .. import common, ircases, irgen, refcodec as R
from . import c01


def containment_index(ir):
    """uuid -> object, by public iteration; also reports duplicates"""
    idx = {}
    dups = []

    def put(o):
        if o.uuid in idx and idx[o.uuid] is not o:
            dups.append(o.uuid)
        idx[o.uuid] = o

    put(ir)
    for m in ir.modules:
        put(m)
        for p in m.proxies:
            put(p)
        for y in m.symbols:
            put(y)
        for s in m.sections:
            put(s)
            for b in s.byte_intervals:
                put(b)
                for k in b.blocks:
                    put(k)
    return idx, dups


def aux_refs(g, v, t, out):
    """collect (value, expected-uuid) for every UUID / Offset leaf"""
    nm, subs = t
    if nm == "UUID":
        out.append(v)
    elif nm == "Offset":
        out.append(v.element_id if isinstance(v, g.Offset) else v)
    elif nm in ("sequence", "set"):
        for x in v:
            aux_refs(g, x, subs[0], out)
    elif nm == "mapping":
        for k, x in v.items():
            aux_refs(g, k, subs[0], out)
            aux_refs(g, x, subs[1], out)
    elif nm == "tuple":
        for x, s in zip(v, subs):
            aux_refs(g, x, s, out)
    elif nm == "variant":
        aux_refs(g, v.val, subs[v.index], out)


def identity_check(label, y, how):
    import gtirb as g

    out = []
    idx, dups = containment_index(y)
    if dups:
        out.append(("C09/duplicate-uuid-in-loaded-ir", "%s %s" % (label, how)))

    def same(o, what):
        if o is None:
            return
        at = idx.get(o.uuid)
        if at is not o:
            out.append(("C09/not-the-attached-object:%s" % what,
                        "%s (%s): %s %s is %s attached object"
                        % (label, how, what, o.uuid,
                           "a copy of the" if at is not None else "not an")))
        elif y.get_by_uuid(o.uuid) is not o:
            out.append(("C09/get_by_uuid-differs:%s" % what,
                        "%s (%s)" % (label, how)))

    for m in y.modules:
        same(m.entry_point, "entry_point")
        if m.entry_point is not None and not isinstance(m.entry_point,
                                                        g.CodeBlock):
            out.append(("C09/entry-point-kind", label))
        for sym in m.symbols:
            same(sym.referent, "referent")
        for s in m.sections:
            for b in s.byte_intervals:
                for off, e in b.symbolic_expressions.items():
                    for sy in e.symbols:
                        same(sy, "expression-symbol")
    for e in y.cfg:
        same(e.source, "edge-source")
        same(e.target, "edge-target")
    for cont, where in [(y, "ir")] + [(m, "module") for m in y.modules]:
        for name, aux in cont.aux_data.items():
            try:
                t = R.parse(aux.type_name)
                known = all_known(t)
            except R.RefError:
                continue
            if not known:
                continue
            refs = []
            try:
                aux_refs(g, aux.data, t, refs)
            except Exception as e:  # noqa
                out.append(("C09/auxdata-unreadable:%s" % type(e).__name__,
                            "%s %s.%s" % (label, where, name)))
                continue
            for r in refs:
                if isinstance(r, g.Node):
                    if idx.get(r.uuid) is not r:
                        out.append(("C09/auxdata-node-not-attached-object:%s"
                                    % where, "%s %s" % (label, name)))
                elif isinstance(r, uuidlib.UUID):
                    if r in idx:
                        out.append(("C09/auxdata-attached-uuid-not-resolved:%s"
                                    % where, "%s %s: %s names an attached %s"
                                    % (label, name, r,
                                       type(idx[r]).__name__)))
                else:
                    out.append(("C09/auxdata-ref-type:%s" % type(r).__name__,
                                label))
    return out


def all_known(t):
    nm, subs = t
    if nm not in R.LEAVES and nm not in R.CONTAINERS:
        return False
    return all(all_known(s) for s in subs)


def check_spec(label, spec):
    import gtirb as g
    from gtirb.version import PROTOBUF_VERSION as PV

    out = []
    try:
        x, _ = irgen.build_ir(spec, "topdown", aux_as_nodes=True)
        _, y = c01.roundtrip(x)
        out += identity_check(label, y, "api-bytes")
        # a second load of the same bytes is an independent IR
        data, y2 = c01.roundtrip(x)
        i1, _ = containment_index(y)
        i2, _ = containment_index(y2)
        if any(i1[u] is i2.get(u) for u in i1):
            out.append(("C09/two-loads-share-objects", label))
    except irgen.EnumMissing:
        pass
    except Exception as e:  # noqa
        import traceback

        out.append(("C09/pipeline-raises:%s" % type(e).__name__,
                    "%s: %s" % (label, traceback.format_exc()[-300:])))
    # cross-IR: another IR that merely mentions this IR's UUIDs in AuxData,
    # read before and after, must neither disturb nor borrow the resolution
    try:
        uu = irgen.all_uuids(spec)
        ghost = irgen.mk_ir(4242, aux={
            "g": ("sequence<UUID>", list(uu)),
            "go": ("mapping<Offset,UUID>",
                   {("Offset", u, i): u for i, u in enumerate(uu[:4])})})
        ghost["uuid"] = uuidlib.UUID(int=0xFEED)
        gdata = irgen.file_bytes(irgen.spec_to_message(ghost, PV), PV)
        keep = []
        for rnd in range(2):
            gi = g.IR.load_protobuf_file(io.BytesIO(gdata))
            vals = [gi.aux_data["g"].data, gi.aux_data["go"].data]
            keep.append(vals)
            refs = []
            aux_refs(g, vals[0], R.parse("sequence<UUID>"), refs)
            aux_refs(g, vals[1], R.parse("mapping<Offset,UUID>"), refs)
            if any(not isinstance(r, uuidlib.UUID) for r in refs):
                out.append(("C09/foreign-ir-uuids-resolved-to-nodes",
                            "%s round %d: an IR that only mentions the UUIDs "
                            "got node objects" % (label, rnd)))
            msg = irgen.spec_to_message(spec, PV)
            y = g.IR.load_protobuf_file(io.BytesIO(irgen.file_bytes(msg, PV)))
            out += identity_check(label, y, "after-foreign-ir-mentioned-uuids")
    except Exception as e:  # noqa
        import traceback

        out.append(("C09/cross-ir-pipeline-raises:%s" % type(e).__name__,
                    "%s: %s" % (label, traceback.format_exc()[-300:])))
    try:
        msg = irgen.spec_to_message(spec, PV, {"reverse_children": True})
        y = g.IR.load_protobuf_file(io.BytesIO(irgen.file_bytes(msg, PV)))
        out += identity_check(label, y, "descriptor-message")
    except Exception as e:  # noqa
        out.append(("C09/load-of-valid-message-raises:%s" % type(e).__name__,
                    label))
    # a custom codec (documented extension point) that reads ANOTHER table
    # of the same loaded IR while one table is being decoded
    try:
        import gtirb.serialization as ser_mod

        uu = [u for u in irgen.all_uuids(spec)][:4]
        spec2 = dict(spec)
        spec2["aux"] = dict(spec["aux"])
        spec2["aux"]["verif_plain"] = ("sequence<UUID>", list(uu))
        msg = irgen.spec_to_message(spec2, PV)
        msg.aux_data["verif_re"].type_name = \
            "sequence<tuple<verif_reenter,UUID>>"
        msg.aux_data["verif_re"].data = R.u64(len(uu)) + b"".join(
            b"n" + u.bytes for u in uu)
        holder = []

        class Reenter(ser_mod.Codec):
            @staticmethod
            def decode(raw_bytes, *, serialization=None, subtypes=(),
                       get_by_uuid=None):
                holder[0].aux_data["verif_plain"].data
                return raw_bytes.read(1)

            @staticmethod
            def encode(out_, item, *, serialization=None, subtypes=()):
                out_.write(item)

        glob = g.AuxData.serializer
        glob.codecs["verif_reenter"] = Reenter
        try:
            y = g.IR.load_protobuf_file(io.BytesIO(irgen.file_bytes(msg, PV)))
            holder.append(y)
            idx, _ = containment_index(y)
            val = y.aux_data["verif_re"].data
            for (note, r), u in zip(val, uu):
                if idx.get(u) is not None and r is not idx[u]:
                    out.append(("C09/auxdata-not-resolved-after-reentrant-"
                                "read", "%s: a codec read another table of "
                                "the IR; entry for %s is %s"
                                % (label, u, type(r).__name__)))
                    break
        finally:
            glob.codecs.pop("verif_reenter", None)
    except Exception as e:  # noqa
        import traceback

        out.append(("C09/reentrant-read-raises:%s" % type(e).__name__,
                    "%s: %s" % (label, traceback.format_exc()[-300:])))
    # a record listed twice in its parent (same UUID, same content): the file
    # may be rejected, but a loaded IR must hold ONE object for that UUID
    for which in ("symbols", "proxies", "sections", "byte_intervals",
                  "blocks"):
        try:
            msg = irgen.spec_to_message(spec, PV)
            done = False
            for pm in msg.modules:
                lists = []
                if which in ("symbols", "proxies", "sections"):
                    lists.append(getattr(pm, which))
                else:
                    for ps in pm.sections:
                        if which == "byte_intervals":
                            lists.append(ps.byte_intervals)
                        else:
                            lists += [pb.blocks for pb in ps.byte_intervals]
                for L in lists:
                    if len(L) and not done:
                        L.add().CopyFrom(L[0])
                        done = True
            if not done:
                continue
            data = irgen.file_bytes(msg, PV)
        except Exception as e:  # noqa
            out.append(("C09/harness-duplicate-record:%s" % type(e).__name__,
                        "%s %s" % (label, which)))
            continue
        try:
            y = g.IR.load_protobuf_file(io.BytesIO(data))
        except Exception:  # noqa
            continue
        try:
            out += identity_check(label, y, "record-listed-twice:" + which)
        except Exception as e:  # noqa
            out.append(("C09/loaded-ir-unreadable:%s" % type(e).__name__,
                        "%s record-listed-twice:%s" % (label, which)))
    # two records of the file carry ONE UUID (a record takes the UUID of its
    # parent, of a child, of a sibling; for the base IR of every other
    # record): the file may be rejected, but a loaded IR must hold one object
    # per UUID
    from gtirb.proto import IR_pb2

    base = irgen.spec_to_message(spec, PV)
    recs = uuid_records(base)
    for i in range(len(recs)):
        for j in range(len(recs)):
            if i == j:
                continue
            related = (recs[j][2] == i or recs[i][2] == j
                       or recs[i][2] == recs[j][2])
            if not related and label != "base":
                continue
            if len(recs) > 40 and not (recs[j][2] == i or recs[i][2] == j):
                continue
            m = IR_pb2.IR()
            m.CopyFrom(base)
            r2 = uuid_records(m)
            r2[j][1].uuid = r2[i][1].uuid
            how = "uuid-of-%s[%d]-on-%s[%d]" % (recs[i][0], i, recs[j][0], j)
            try:
                y = g.IR.load_protobuf_file(io.BytesIO(irgen.file_bytes(m, PV)))
            except Exception:  # noqa
                continue
            try:
                for sig, det in identity_check(label, y, how):
                    out.append((sig + ":two-records-one-uuid:%s-%s"
                                % (recs[i][0], recs[j][0]), det))
            except Exception as e:  # noqa
                out.append(("C09/loaded-ir-unreadable:%s" % type(e).__name__,
                            "%s %s" % (label, how)))
    return out


def uuid_records(msg):
    """every record of the message that carries a uuid field:
    [(kind, record, index of the parent record)]"""
    out = [("ir", msg, -1)]
    for m in msg.modules:
        mi = len(out)
        out.append(("module", m, 0))
        for p in m.proxies:
            out.append(("proxy", p, mi))
        for y in m.symbols:
            out.append(("symbol", y, mi))
        for s in m.sections:
            si = len(out)
            out.append(("section", s, mi))
            for b in s.byte_intervals:
                bi = len(out)
                out.append(("interval", b, si))
                for k in b.blocks:
                    w = k.WhichOneof("value")
                    if w:
                        out.append((w, getattr(k, w), bi))
    return out


# ---------------------------------------------------------------- faults
def reference_sites(msg):
    """yields (description, setter, valid_kinds)"""
    for mi, m in enumerate(msg.modules):
        if m.entry_point:
            yield ("module[%d].entry_point" % mi,
                   lambda u, m=m: setattr(m, "entry_point", u), {"code"})
        for yi, y in enumerate(m.symbols):
            if y.WhichOneof("optional_payload") == "referent_uuid":
                yield ("symbol.referent_uuid",
                       lambda u, y=y: setattr(y, "referent_uuid", u),
                       {"code", "data", "proxy"})
        for s in m.sections:
            for b in s.byte_intervals:
                for off in list(b.symbolic_expressions):
                    e = b.symbolic_expressions[off]
                    if e.WhichOneof("value") == "addr_const":
                        yield ("addr_const.symbol_uuid",
                               lambda u, e=e: setattr(e.addr_const,
                                                      "symbol_uuid", u),
                               {"symbol"})
                    else:
                        yield ("addr_addr.symbol1_uuid",
                               lambda u, e=e: setattr(e.addr_addr,
                                                      "symbol1_uuid", u),
                               {"symbol"})
                        yield ("addr_addr.symbol2_uuid",
                               lambda u, e=e: setattr(e.addr_addr,
                                                      "symbol2_uuid", u),
                               {"symbol"})
    for ei, e in enumerate(msg.cfg.edges):
        yield ("edge.source_uuid",
               lambda u, e=e: setattr(e, "source_uuid", u), {"code", "proxy"})
        yield ("edge.target_uuid",
               lambda u, e=e: setattr(e, "target_uuid", u), {"code", "proxy"})


def kinds_of(spec):
    out = {}
    for kind, node, _ in irgen.walk(spec):
        k = node["kind"] if kind == "block" else kind
        out.setdefault(k, node["uuid"])
    return out


def fault_cases(spec):
    """list of (description, file bytes)"""
    from gtirb.proto import IR_pb2
    from gtirb.version import PROTOBUF_VERSION as PV

    base = irgen.spec_to_message(spec, PV)
    n_sites = len(list(reference_sites(base)))
    kinds = kinds_of(spec)
    out = []
    for si in range(n_sites):
        targets = [("dangling", uuidlib.UUID(int=0xDEAD0000 + si).bytes)]
        m0 = IR_pb2.IR()
        m0.CopyFrom(base)
        desc, _, valid = list(reference_sites(m0))[si]
        for k, u in kinds.items():
            if k not in valid:
                targets.append(("wrong-kind:" + k, u.bytes))
        for tname, target in targets:
            m = IR_pb2.IR()
            m.CopyFrom(base)
            d, setter, _ = list(reference_sites(m))[si]
            setter(target)
            out.append(("%s->%s" % (d, tname), irgen.file_bytes(m, PV)))
            if d.startswith("edge."):
                # the same fault in a file whose (redundant) vertex list
                # names the bad endpoint too, as a writer that dumps its
                # graph's vertices together with its edges would produce
                m.cfg.vertices.append(target)
                out.append(("%s->%s+listed-as-vertex" % (d, tname),
                            irgen.file_bytes(m, PV)))
    return out


def fault_check(label, spec):
    import gtirb as g
    from gtirb.util import DeserializationError

    out = []
    n = 0
    for desc, data in fault_cases(spec):
        n += 1
        try:
            g.IR.load_protobuf_file(io.BytesIO(data))
            out.append(("C09/bad-reference-accepted:%s" % desc,
                        "%s: load returned an IR" % label))
        except DeserializationError:
            pass
        except Exception as e:  # noqa
            out.append(("C09/bad-reference-wrong-exception:%s:%s"
                        % (desc.split("->")[0] + "->" + desc.split("->")[1].split(":")[0],
                           type(e).__name__),
                        "%s %s: %r" % (label, desc, e)))
    return n, out


def work(task):
    tier, lo, hi, _ = task
    cases = ircases.reader_cases(tier)
    bad = []
    n = 0
    for label, spec in cases[lo:hi]:
        n += 7
        for sig, detail in check_spec(label, spec):
            if len(bad) < 30:
                bad.append((sig, detail, label))
    return n, bad


def work_fault(task):
    tier, i = task
    label, spec = fault_bases(tier)[i]
    n, out = fault_check(label, spec)
    return n, [(s, d, label) for s, d in out]


def fault_bases(tier):
    cases = ircases.reader_cases(tier)
    rich = [(l, s) for l, s in cases if l == "base"]
    shapes = [(l, s) for l, s in cases if l.startswith("shape") and s["cfg"]
              and any(m["symbols"] and m["entry"] for m in s["modules"])]
    step = max(1, len(shapes) // (40 if tier == "quick" else 200))
    return rich + shapes[::step]


def run(ctx):
    cases = ircases.reader_cases(ctx.tier)
    tasks = [(ctx.tier, lo, hi, None)
             for lo, hi in ircases.chunks(len(cases), 20)]
    ctx.rng.shuffle(tasks)
    n = 0
    bad = []
    for k, b in common.pmap(work, tasks, chunksize=1):
        n += k
        bad += b
    nf = 0
    fb = fault_bases(ctx.tier)
    for k, b in common.pmap(work_fault, [(ctx.tier, i) for i in range(len(fb))],
                            chunksize=1):
        nf += k
        bad += b
    c01.report(ctx, bad)
    cov = {
        "states": len(cases) + nf,
        "transitions": n + nf,
        "traces_validated_against_impl": n + nf,
        "loads_checked_for_identity": n,
        "reference_fault_files": nf,
        "fault_base_messages": len(fb),
        "exhaustive": True,
        "bound": "identity: the C01 case space (no double deviations), loaded "
        "twice from API bytes and once from a descriptor-built message; "
        "faults: every reference field of %d base messages retargeted to a "
        "fresh UUID and to one node of every wrong kind" % len(fb),
        "samples": ["base: symbol.referent_uuid->wrong-kind:section",
                    "base: module[0].entry_point->dangling", cases[10][0]],
    }
    return ctx.finish(
        "model_checking", cov,
        ["a state is one file; a transition one load on the real code",
         "containment index built by public iteration only"])


def replay(doc):
    tier = doc.get("tier", "quick")
    for label, spec in ircases.reader_cases(tier):
        if label == doc["case"]:
            v = check_spec(label, spec)
            v += fault_check(label, spec)[1]
            for s, d in v[:10]:
                print(s, "--", d[:300])
            hit = any(s == doc["signature"] for s, _ in v)
            print("case %s: %s" % (label, "reproduced" if hit else
                                   "NOT reproduced"))
            return 1 if hit else 0
    return 2
