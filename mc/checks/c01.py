"""C01 - save then load reproduces the IR exactly.

Exhaustive enumeration of a bounded space of self-contained IRs (all
containment shapes up to a node bound x reference decorations, plus every
single - thorough: double - boundary-value deviation of a rich base IR), each
built through the public API in five construction orders and taken through
save -> load -> save."""

import io

from .. import common, ircases, irgen


def pb_version():
    from gtirb.version import PROTOBUF_VERSION

    return PROTOBUF_VERSION


def roundtrip(ir):
    import gtirb as g

    buf = io.BytesIO()
    ir.save_protobuf_file(buf)
    data = buf.getvalue()
    return data, g.IR.load_protobuf_file(io.BytesIO(data))


def roundtrip_by_path(ir):
    """the file-name entry points: save_protobuf(path) / load_protobuf(path)"""
    import os
    import tempfile

    import gtirb as g

    d = os.path.join(common.VERIF, ".stage")
    os.makedirs(d, exist_ok=True)
    fd, path = tempfile.mkstemp(prefix="c01_", suffix=".gtirb", dir=d)
    os.close(fd)
    try:
        # the path already holds a (longer) file, e.g. an earlier save
        buf = io.BytesIO()
        ir.save_protobuf_file(buf)
        with open(path, "wb") as f:
            f.write(buf.getvalue() + buf.getvalue()[8:] + b"\xaa" * 4096)
        ir.save_protobuf(path)
        with open(path, "rb") as f:
            data = f.read()
        return data, g.IR.load_protobuf(path)
    finally:
        os.unlink(path)


def parse_plain(data):
    from gtirb.proto import IR_pb2

    m = IR_pb2.IR()
    m.ParseFromString(data[8:])
    return irgen.msg_to_plain(m)


def build_reload_edit(spec):
    """A sixth way to arrive at the IR: build a slightly different IR, save
    it, load it, and finish it by public edits on the LOADED objects (rename
    the modules, complete AuxData sequences / mappings in place after reading
    them, flip a symbol's at_end).  Returns the finished, loaded IR."""
    import copy

    import gtirb as g
    from .. import refcodec as R

    spec0 = copy.deepcopy(spec)
    edits = []
    for c in [spec0] + spec0["modules"]:
        for name, (t, v) in list(c["aux"].items()):
            if isinstance(v, list) and v:
                c["aux"][name] = (t, v[:-1])
                edits.append((c["uuid"], "append", name, t, v[-1]))
            elif isinstance(v, dict) and v:
                k = list(v)[-1]
                rest = {a: b for a, b in v.items() if a != k}
                c["aux"][name] = (t, rest)
                edits.append((c["uuid"], "setitem", name, t, (k, v[k])))
    for m in spec0["modules"]:
        edits.append((m["uuid"], "rename", m["name"], None, None))
        m["name"] = m["name"] + "~"
        for y in m["symbols"][:1]:
            edits.append((y["uuid"], "at_end", y["at_end"], m["uuid"], None))
            y["at_end"] = not y["at_end"]
    x0, _ = irgen.build_ir(spec0, "topdown")
    _, y = roundtrip(x0)
    conts = {y.uuid: y}
    conts.update({m.uuid: m for m in y.modules})
    for u, kind, a, b, c in edits:
        if kind == "rename":
            conts[u].name = a
        elif kind == "at_end":
            sym = [s for s in conts[b].symbols if s.uuid == u][0]
            sym.at_end = a
        else:
            t = R.parse(b)
            data = conts[u].aux_data[a].data      # read ...
            if kind == "append":                  # ... then edit in place
                data.append(irgen.aux_to_impl(g, {}, t[1][0], c, False))
            else:
                data[irgen.aux_to_impl(g, {}, t[1][0], c[0], False)] = \
                    irgen.aux_to_impl(g, {}, t[1][1], c[1], False)
    return y


UNKNOWN_NESTED = ("sequence<verif_nocodec>", "set<verif_nocodec>",
                  "mapping<string,verif_nocodec>", "mapping<verif_nocodec,string>",
                  "tuple<verif_nocodec>", "variant<verif_nocodec>",
                  "tuple<sequence<verif_nocodec>,uint8_t>")


def earlier_tables_with_unknown_types():
    """What another IR of the same process may have done before: tables whose
    type nests a name without codec inside every known container were decoded.
    Nothing of that may be remembered by the (process-wide) serializer."""
    import gtirb as g

    for t in UNKNOWN_NESTED:
        try:
            g.AuxData.serializer.decode(b"\0" * 16, t)
        except Exception:  # noqa
            pass
    # ... and saves of another IR failed part-way through a table (value out
    # of range / of the wrong type / lone surrogate at index >= 1)
    for val, tname in (([7, 300], "sequence<uint8_t>"),
                       ([1, "two"], "sequence<int64_t>"),
                       (["ok", "\ud800"], "sequence<string>"),
                       ({"k": [1, None]}, "mapping<string,sequence<uint8_t>>"),
                       ([1.0, 1e300], "sequence<float>")):
        other = g.IR()
        other.aux_data["good"] = g.AuxData([1, 2], "sequence<uint8_t>")
        other.aux_data["zbad"] = g.AuxData(val, tname)
        g.Module(name="m", ir=other).aux_data["bad"] = g.AuxData(val, tname)
        try:
            other.save_protobuf_file(io.BytesIO())
        except Exception:  # noqa
            pass


def check_spec(label, spec, orders):
    """returns list of (signature, detail)"""
    out = []
    PV = pb_version()
    earlier_tables_with_unknown_types()
    want = irgen.expected_snapshot(spec, PV)
    for oi, order in enumerate(orders):
        tag = order
        try:
            if order == "reload_edit":
                x = build_reload_edit(spec)
            else:
                x, _ = irgen.build_ir(spec, order, aux_as_nodes=bool(oi % 2))
        except irgen.EnumMissing as e:
            out.append(("C01/python-enum-lacks-schema-constant", str(e)))
            continue
        except Exception as e:  # noqa
            import traceback

            out.append(("C01/api-build-raises:%s" % type(e).__name__,
                        "%s %s: %s" % (label, order,
                                       traceback.format_exc()[-300:])))
            continue
        sx = irgen.snapshot(x)
        d = irgen.diff(sx, want)
        if d:
            out.append(("C01/api-built-ir-differs-from-spec:%s"
                        % ircases.path_class(d), "%s %s: %s" % (label, tag, d)))
            continue
        try:
            data, y = roundtrip(x)
        except Exception as e:  # noqa
            import traceback

            out.append(("C01/save-or-load-raises:%s" % type(e).__name__,
                        "%s %s: %s" % (label, tag,
                                       traceback.format_exc()[-400:])))
            continue
        if order == "topdown":
            # the file-name entry points agree with the stream ones
            try:
                data_p, y_p = roundtrip_by_path(x)
                dp = irgen.diff(irgen.snapshot(y_p), sx)
                if dp or len(data_p) != len(data) \
                        or parse_plain(data_p) != parse_plain(data) \
                        or data_p[:8] != data[:8]:
                    out.append(("C01/by-path-differs:%s" % ircases.path_class(dp),
                                "%s %s: %s" % (label, tag, dp)))
            except Exception as e:  # noqa
                out.append(("C01/by-path-raises:%s" % type(e).__name__,
                            "%s %s: %r" % (label, tag, e)))
        try:
            d = irgen.diff(irgen.snapshot(y), sx)
        except Exception as e:  # noqa
            out.append(("C01/loaded-ir-unreadable:%s" % type(e).__name__,
                        "%s %s: %r" % (label, tag, e)))
            continue
        if d:
            out.append(("C01/loaded-differs:%s" % ircases.path_class(d),
                        "%s %s: loaded vs original %s" % (label, tag, d)))
        if not x.deep_eq(y):
            out.append(("C01/deep_eq-original-loaded-false", "%s %s" % (label, tag)))
        if not y.deep_eq(x):
            out.append(("C01/deep_eq-loaded-original-false", "%s %s" % (label, tag)))
        try:
            buf2 = io.BytesIO()
            y.save_protobuf_file(buf2)
            d = irgen.diff(parse_plain(buf2.getvalue()), parse_plain(data))
            if d or buf2.getvalue()[:8] != data[:8]:
                out.append(("C01/resave-differs:%s" % ircases.path_class(d),
                            "%s %s: %s" % (label, tag, d)))
        except Exception as e:  # noqa
            out.append(("C01/resave-raises:%s" % type(e).__name__,
                        "%s %s" % (label, tag)))
    return out


def work(task):
    tier, lo, hi, orders = task
    cases = ircases.all_cases(tier)
    bad = []
    n = 0
    for label, spec in cases[lo:hi]:
        n += len(orders)
        for sig, detail in check_spec(label, spec, orders):
            if len(bad) < 30:
                bad.append((sig, detail, label))
    return n, bad


def run_cases(ctx, work_fn, orders, chunk=20):
    cases = ircases.all_cases(ctx.tier)
    tasks = [(ctx.tier, lo, hi, orders)
             for lo, hi in ircases.chunks(len(cases), chunk)]
    ctx.rng.shuffle(tasks)
    n = 0
    bad = []
    done = 0
    capped = False
    for k, b in common.pmap(work_fn, tasks, chunksize=1):
        n += k
        bad += b
        done += 1
        if ctx.out_of_time(0.9) and done < len(tasks):
            capped = True
            common.close_pool()
            break
    return cases, n, bad, capped, done, len(tasks)


def report(ctx, bad):
    best = {}
    for sig, detail, label in bad:
        if not sig.startswith(ctx.prop + "/"):
            continue
        old = best.get(sig)
        if old is None or len(detail) < len(old[0]):
            best[sig] = (detail, label)
    for sig, (detail, label) in sorted(best.items()):
        ctx.violation(sig, {"scenario": "ircases", "case": label,
                            "tier": ctx.tier, "detail": detail})


def run(ctx):
    orders = irgen.ORDERS + ["reload_edit"]
    cases, n, bad, capped, done, total = run_cases(ctx, work, orders)
    report(ctx, bad)
    n_struct = sum(1 for l, _ in cases if l.startswith("shape"))
    cov = {
        "states": len(cases),
        "transitions": n,
        "traces_validated_against_impl": n,
        "structures": n_struct,
        "deviation_cases": len(cases) - n_struct,
        "construction_orders": list(orders),
        "chunks_done": done, "chunks_total": total,
        "exhaustive": not capped,
        "bound": "all containment shapes with fan-out <= 2 and <= %d nodes x 4 "
        "reference decorations; every single%s boundary-value deviation of a "
        "20-node base IR; 5 construction orders each"
        % (9 if ctx.tier == "quick" else 11,
           "" if ctx.tier == "quick" else " and double"),
        "samples": [cases[i][0] for i in (0, len(cases) // 2, len(cases) - 1)],
    }
    return ctx.finish(
        "model_checking", cov,
        ["a state is one IR specification; a transition is one build -> save "
         "-> load -> save pipeline executed on the real code",
         "oracle: mc/irgen.py expected_snapshot (from the specification) and "
         "snapshot (public attributes only)"])


def replay(doc):
    tier = doc.get("tier", "quick")
    for label, spec in ircases.all_cases(tier):
        if label == doc["case"]:
            v = check_spec(label, spec, irgen.ORDERS + ["reload_edit"])
            for s, d in v:
                print(s, "--", d[:400])
            hit = any(s == doc["signature"] for s, _ in v)
            print("case %s: %s" % (label, "reproduced" if hit else
                                   "NOT reproduced"))
            return 1 if hit else 0
    print("case not found")
    return 2
