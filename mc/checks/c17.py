"""C17 - the loader either rejects a file or returns a coherent IR.

Complete single-fault enumeration over a set of base files: every truncation,
every single-bit flip, single-byte substitutions, every header byte x all 256
values, and message-level structural faults (every ordered pair of node UUIDs
made equal, undefined enum numbers, wrong-length UUIDs, cleared oneofs,
mismatching version fields).  Every load runs under an alarm."""

import io
import os
import signal

from .. import common, ircases, irgen
from . import c01, c09

SUBST_Q = [0x00, 0x01, 0x02, 0x04, 0x08, 0x0A, 0x10, 0x12, 0x1A, 0x20, 0x7F,
           0x80, 0xFE, 0xFF]


class Hang(Exception):
    pass


def _alarm(signum, frame):
    raise Hang()


def base_specs(tier):
    cases = ircases.all_cases(tier, double=False)
    d = dict(cases)
    out = [("base", d["base"])]
    shapes = [(l, s) for l, s in cases if l.startswith("shape")
              and s["cfg"] and any(m["symbols"] and m["sections"]
                                   and any(b["symexprs"] for sec in m["sections"]
                                           for b in sec["intervals"])
                                   for m in s["modules"])]
    step = max(1, len(shapes) // (4 if tier == "quick" else 12))
    out += shapes[::step][: (5 if tier == "quick" else 13)]
    return out


def base_files(tier):
    """list of (label, bytes, spec)"""
    import gtirb as g
    from gtirb.version import PROTOBUF_VERSION as PV

    out = []
    for label, spec in base_specs(tier):
        msg = irgen.spec_to_message(spec, PV)
        out.append((label + "/descriptor", irgen.file_bytes(msg, PV), spec))
        if label == "base":
            x, _ = irgen.build_ir(spec, "topdown")
            buf = io.BytesIO()
            x.save_protobuf_file(buf)
            out.append((label + "/api", buf.getvalue(), spec))
    return out


# -------------------------------------------------------------- coherence
def coherent(ir):
    """list of problems of a returned IR (empty = coherent)"""
    import gtirb as g

    probs = []
    idx, dups = c09.containment_index(ir)
    if dups:
        probs.append("duplicate-uuid-among-attached-nodes")
    # C03: lookup finds exactly the attached nodes
    for u, o in idx.items():
        if ir.get_by_uuid(u) is not o and not dups:
            probs.append("get_by_uuid-misses-attached-%s" % type(o).__name__)
            break
    # C04: both ends agree
    for m in ir.modules:
        if m.ir is not ir:
            probs.append("module.ir")
        for p in m.proxies:
            if p.module is not m:
                probs.append("proxy.module")
        for y in m.symbols:
            if y.module is not m:
                probs.append("symbol.module")
        for s in m.sections:
            if s.module is not m:
                probs.append("section.module")
            for b in s.byte_intervals:
                if b.section is not s:
                    probs.append("interval.section")
                if len(b.contents) > b.size:
                    probs.append("contents-longer-than-size")
                if b.initialized_size != len(b.contents):
                    probs.append("initialized_size")
                for k in b.blocks:
                    if k.byte_interval is not b:
                        probs.append("block.byte_interval")
                    if not isinstance(k, (g.CodeBlock, g.DataBlock)):
                        probs.append("block-kind")
                for off, e in b.symbolic_expressions.items():
                    for sy in e.symbols:
                        if not isinstance(sy, g.Symbol):
                            probs.append("expression-symbol-kind")
                        elif idx.get(sy.uuid) is not sy:
                            probs.append("expression-symbol-not-attached")
        for y in m.symbols:
            r = y.referent
            if r is not None:
                if not isinstance(r, g.Block):
                    probs.append("referent-kind")
                elif idx.get(r.uuid) is not r:
                    probs.append("referent-not-attached")
        e = m.entry_point
        if e is not None:
            if not isinstance(e, g.CodeBlock):
                probs.append("entry-point-kind")
            elif idx.get(e.uuid) is not e:
                probs.append("entry-point-not-attached")
    for e in ir.cfg:
        for end in (e.source, e.target):
            if not isinstance(end, g.CfgNode):
                probs.append("edge-endpoint-kind")
            elif idx.get(end.uuid) is not end:
                probs.append("edge-endpoint-not-attached")
    if len(set(map(id, ir.modules))) != len(ir.modules):
        probs.append("module-listed-twice")
    if not probs:
        try:
            buf = io.BytesIO()
            ir.save_protobuf_file(buf)
            again = g.IR.load_protobuf_file(io.BytesIO(buf.getvalue()))
            if not (ir.deep_eq(again) and again.deep_eq(ir)):
                probs.append("resave-not-deep_eq")
        except Exception as e:  # noqa
            probs.append("cannot-be-saved-again:%s" % type(e).__name__)
    return sorted(set(probs))


def try_load(data, must_be_value_error):
    """returns None if fine, else (kind, detail)"""
    import gtirb as g

    signal.signal(signal.SIGALRM, _alarm)
    signal.alarm(5)
    try:
        try:
            ir = g.IR.load_protobuf_file(io.BytesIO(data))
        except Hang:
            return ("hang", "load did not finish within 5 s")
        except ValueError:
            return None
        except RecursionError as e:
            return None if not must_be_value_error else (
                "wrong-exception:RecursionError", "")
        except Exception as e:  # noqa
            if must_be_value_error:
                return ("header-or-version-fault-not-ValueError:%s"
                        % type(e).__name__, repr(e)[:200])
            return None
        if must_be_value_error or len(data) < 8:
            return ("header-or-version-fault-accepted", "load returned an IR")
        try:
            probs = coherent(ir)
        except Hang:
            return ("hang", "validating the returned IR did not finish")
        except Exception as e:  # noqa
            import traceback

            return ("returned-ir-unusable:%s" % type(e).__name__,
                    traceback.format_exc()[-300:])
        if probs:
            return ("incoherent-ir:%s" % probs[0], ", ".join(probs))
        return None
    finally:
        signal.alarm(0)


def header_must_fail(data, pv):
    """ValueError specifically: the first five bytes are not GTIRB, or the
    version byte is there and differs.  (A file cut inside the header after
    the magic must still be rejected, but with any exception.)"""
    return data[:5] != b"GTIRB" or (len(data) >= 8 and data[7] != pv)


def must_reject(data, pv):
    return len(data) < 8


# ------------------------------------------------------------ byte faults
def byte_fault_tasks(files, tier):
    tasks = []
    for fi, (label, data, spec) in enumerate(files):
        n = len(data)
        for lo in range(0, n + 1, 64):
            tasks.append(("trunc", fi, lo, min(n + 1, lo + 64)))
        for lo in range(0, n, 16):
            tasks.append(("bitflip", fi, lo, min(n, lo + 16)))
        for lo in range(0, n, 8 if tier == "quick" else 2):
            tasks.append(("subst", fi, lo, min(n, lo + (8 if tier == "quick"
                                                          else 2))))
        tasks.append(("header", fi, 0, 8))
    return tasks


def work_bytes(task):
    kind, fi, lo, hi = task
    from gtirb.version import PROTOBUF_VERSION as PV

    tier = _TIER[0]
    label, data, spec = _FILES[fi]
    bad = []
    n = 0

    def run(mut, what):
        nonlocal n
        n += 1
        r = try_load(mut, header_must_fail(mut, PV))
        if r is not None and len(bad) < 20:
            bad.append(("C17/" + r[0], "%s %s: %s" % (label, what, r[1]),
                        label, what, mut.hex()))

    if kind == "trunc":
        for cut in range(lo, hi):
            if cut < len(data):
                run(data[:cut], "truncated-to-%d" % cut)
    elif kind == "bitflip":
        for pos in range(lo, hi):
            for bit in range(8):
                m = bytearray(data)
                m[pos] ^= 1 << bit
                run(bytes(m), "bitflip@%d.%d" % (pos, bit))
    elif kind == "subst":
        values = SUBST_Q if tier == "quick" else range(256)
        for pos in range(lo, hi):
            extra = [(data[pos] + 1) & 0xFF, (data[pos] - 1) & 0xFF]
            for val in list(values) + (extra if tier == "quick" else []):
                if val == data[pos]:
                    continue
                m = bytearray(data)
                m[pos] = val
                run(bytes(m), "byte@%d=%02x" % (pos, val))
    elif kind == "header":
        for pos in range(8):
            for val in range(256):
                if val == data[pos]:
                    continue
                m = bytearray(data)
                m[pos] = val
                run(bytes(m), "header[%d]=%02x" % (pos, val))
        run(b"", "empty-file")
        run(data + b"\x00", "one-trailing-zero-byte")
        run(data + data[8:], "message-twice")
    return n, bad


# ------------------------------------------------------ structural faults
def uuid_fields(msg):
    """(description, getter, setter) for every node UUID field"""
    out = []

    def add(desc, m):
        out.append((desc, m))

    add("ir", msg)
    for mi, m in enumerate(msg.modules):
        add("module%d" % mi, m)
        for pi, p in enumerate(m.proxies):
            add("proxy", p)
        for y in m.symbols:
            add("symbol", y)
        for s in m.sections:
            add("section", s)
            for b in s.byte_intervals:
                add("interval", b)
                for k in b.blocks:
                    which = k.WhichOneof("value")
                    if which:
                        add(which + "-block", getattr(k, which))
    return out


def structural_cases(spec, pv):
    """yields (description, bytes, must_be_value_error)"""
    from gtirb.proto import IR_pb2

    base = irgen.spec_to_message(spec, pv)

    def clone():
        m = IR_pb2.IR()
        m.CopyFrom(base)
        return m

    # every reference made dangling / pointed at a node of every wrong kind
    for desc, data in c09.fault_cases(spec):
        yield ("reference:" + desc, data, False)
    n = len(uuid_fields(base))
    for i in range(n):
        for j in range(n):
            if i == j:
                continue
            m = clone()
            f = uuid_fields(m)
            f[i][1].uuid = f[j][1].uuid
            yield ("uuid-of-%s:=uuid-of-%s" % (f[i][0], f[j][0]),
                   irgen.file_bytes(m, pv), False)
    # ... and the same with every reference following (the file stays
    # referentially closed): all occurrences of one UUID replaced by another
    base_bytes = irgen.file_bytes(base, pv)
    f0 = uuid_fields(base)
    for i in range(n):
        for j in range(n):
            if i == j or f0[i][1].uuid == f0[j][1].uuid:
                continue
            yield ("uuid-of-%s-merged-into-uuid-of-%s" % (f0[i][0], f0[j][0]),
                   base_bytes.replace(bytes(f0[i][1].uuid),
                                      bytes(f0[j][1].uuid)), False)
    for i in range(n):
        for bad_len in (0, 15, 17):
            m = clone()
            f = uuid_fields(m)
            f[i][1].uuid = (f[i][1].uuid + b"\x00\x00")[:bad_len]
            yield ("uuid-of-%s-length-%d" % (f[i][0], bad_len),
                   irgen.file_bytes(m, pv), False)
    # undefined enum numbers
    m = clone()
    for mi in range(len(m.modules)):
        for field in ("isa", "file_format", "byte_order"):
            mm = clone()
            setattr(mm.modules[mi], field, 99)
            yield ("module.%s=99" % field, irgen.file_bytes(mm, pv), False)
        for si in range(len(m.modules[mi].sections)):
            mm = clone()
            mm.modules[mi].sections[si].section_flags.append(99)
            yield ("section_flags+=99", irgen.file_bytes(mm, pv), False)
            sec = m.modules[mi].sections[si]
            for bi in range(len(sec.byte_intervals)):
                for ki in range(len(sec.byte_intervals[bi].blocks)):
                    mm = clone()
                    k = mm.modules[mi].sections[si].byte_intervals[bi].blocks[ki]
                    if k.WhichOneof("value") == "code":
                        k.code.decode_mode = 99
                        yield ("decode_mode=99", irgen.file_bytes(mm, pv), False)
                    mm = clone()
                    k = mm.modules[mi].sections[si].byte_intervals[bi].blocks[ki]
                    k.ClearField(k.WhichOneof("value"))
                    yield ("block-oneof-cleared", irgen.file_bytes(mm, pv), False)
                mm = clone()
                b = mm.modules[mi].sections[si].byte_intervals[bi]
                b.size = max(0, len(b.contents) - 1)
                if len(b.contents):
                    yield ("interval-size-below-contents",
                           irgen.file_bytes(mm, pv), False)
                for off in list(b.symbolic_expressions):
                    mm = clone()
                    e = mm.modules[mi].sections[si].byte_intervals[bi] \
                        .symbolic_expressions[off]
                    e.ClearField(e.WhichOneof("value"))
                    yield ("expression-oneof-cleared", irgen.file_bytes(mm, pv),
                           False)
    for ei in range(len(m.cfg.edges)):
        mm = clone()
        if mm.cfg.edges[ei].HasField("label"):
            mm.cfg.edges[ei].label.type = 99
            yield ("edge-type=99", irgen.file_bytes(mm, pv), False)
    # version fields
    for v in (0, pv - 1, pv + 1, 255, 1 << 31):
        mm = clone()
        mm.version = v
        yield ("message-version=%d" % v, irgen.file_bytes(mm, pv), True)
    mm = clone()
    data = irgen.file_bytes(mm, pv)
    for v in (0, pv - 1, pv + 1, 255):
        yield ("header-version=%d" % v, data[:7] + bytes([v]) + data[8:], True)
    # same module listed twice / same section twice
    if len(m.modules):
        mm = clone()
        mm.modules.add().CopyFrom(mm.modules[0])
        yield ("module-listed-twice", irgen.file_bytes(mm, pv), False)
        if len(m.modules[0].sections):
            mm = clone()
            mm.modules[0].sections.add().CopyFrom(mm.modules[0].sections[0])
            yield ("section-listed-twice", irgen.file_bytes(mm, pv), False)
        if len(m.modules[0].symbols):
            mm = clone()
            mm.modules[0].symbols.add().CopyFrom(mm.modules[0].symbols[0])
            yield ("symbol-listed-twice", irgen.file_bytes(mm, pv), False)


def work_struct(task):
    fi, lo, hi = task
    from gtirb.version import PROTOBUF_VERSION as PV

    label, data, spec = _FILES[fi]
    bad = []
    n = 0
    for i, (desc, mut, must) in enumerate(structural_cases(spec, PV)):
        if i < lo:
            continue
        if i >= hi:
            break
        n += 1
        r = try_load(mut, must or header_must_fail(mut, PV))
        if r is not None and len(bad) < 30:
            import re

            cls = re.sub(r"\d+", "", desc)
            bad.append(("C17/%s:%s" % (r[0], cls),
                        "%s %s: %s" % (label, desc, r[1]), label, desc,
                        mut.hex()))
    return n, bad


_FILES = []
_TIER = ["quick"]


def run(ctx):
    from gtirb.version import PROTOBUF_VERSION as PV

    global _FILES
    _FILES = base_files(ctx.tier)
    _TIER[0] = ctx.tier
    common.close_pool()
    tasks = byte_fault_tasks(_FILES, ctx.tier)
    ctx.rng.shuffle(tasks)
    n_bytes = 0
    bad = []
    for k, b in common.pmap(work_bytes, tasks, chunksize=2):
        n_bytes += k
        bad += b
    stasks = []
    n_struct_total = 0
    for fi, (label, data, spec) in enumerate(_FILES):
        if label.endswith("/api"):
            continue
        total = sum(1 for _ in structural_cases(spec, PV))
        n_struct_total += total
        stasks += [(fi, lo, hi) for lo, hi in ircases.chunks(total, 60)]
    n_struct = 0
    for k, b in common.pmap(work_struct, stasks, chunksize=1):
        n_struct += k
        bad += b
    # the structural faults once more in an interpreter started with -O
    # (assert statements stripped): rejection must not hinge on an assert
    n_opt = 0
    try:
        import json
        import subprocess
        import sys

        outp = os.path.join(common.VERIF, ".stage", "c17_O_%d.json"
                            % os.getpid())
        pr = subprocess.run([sys.executable, "-O", "-m", "mc.checks.c17",
                             ctx.tier, outp], cwd=common.VERIF,
                            capture_output=True, text=True, timeout=900)
        if pr.returncode != 0 or not os.path.exists(outp):
            ctx.notes.append("python -O child failed: %s" % pr.stderr[-300:])
        else:
            with open(outp) as f:
                doc = json.load(f)
            os.unlink(outp)
            n_opt = doc["n"]
            for sig, detail, label, what, hexdata in doc["bad"]:
                bad.append((sig + ":under-python-O", detail, label,
                            what + " (python -O)", hexdata))
    except Exception as e:  # noqa
        ctx.notes.append("python -O child could not run: %r" % (e,))
    ctx.extra_cov["structural_faults_under_python_O"] = n_opt
    # a valid file handed over as a stream that is not at offset 0 / cannot
    # seek (a file appended to other data, a pipe), and header faults there
    import gtirb as g_

    class Pipe(io.RawIOBase):
        def __init__(self, d):
            self._d, self._i = d, 0

        def readable(self):
            return True

        def seekable(self):
            return False

        def readinto(self, buf):
            k = min(len(buf), len(self._d) - self._i)
            buf[:k] = self._d[self._i:self._i + k]
            self._i += k
            return k

    def positioned(d):
        st = io.BytesIO(b"\x00prefix-of-11" [:11] + d)
        st.seek(11)
        return st

    n_streams = 0
    for label, data, spec in _FILES[:6]:
        ref = g_.IR.load_protobuf_file(io.BytesIO(data))
        for how, mk in (("stream-not-at-offset-0", positioned),
                        ("unseekable-stream",
                         lambda d: io.BufferedReader(Pipe(d)))):
            n_streams += 1
            try:
                y = g_.IR.load_protobuf_file(mk(data))
                if not (y.deep_eq(ref) and ref.deep_eq(y)):
                    bad.append(("C17/valid-file-loads-differently:" + how,
                                label, label, how, data.hex()))
            except Exception as e:  # noqa
                bad.append(("C17/valid-file-rejected:%s:%s"
                            % (how, type(e).__name__), label, label, how,
                            data.hex()))
            for what, mut in (("version", data[:7] + bytes([PV + 1])
                               + data[8:]),
                              ("magic", b"GTIRC" + data[5:])):
                n_streams += 1
                try:
                    g_.IR.load_protobuf_file(mk(mut))
                    bad.append(("C17/faulty-header-accepted:" + how, label,
                                label, how + " " + what, mut.hex()))
                except ValueError:
                    pass
                except Exception as e:  # noqa
                    bad.append(("C17/header-fault-wrong-exception:%s:%s"
                                % (how, type(e).__name__), label, label,
                                how + " " + what, mut.hex()))
    ctx.extra_cov["stream_form_cases"] = n_streams
    # unchanged base files must load and be coherent
    for label, data, spec in _FILES:
        r = try_load(data, False)
        if r is not None:
            bad.append(("C17/valid-file:" + r[0], "%s: %s" % (label, r[1]),
                        label, "unchanged", data.hex()))
        try:
            import gtirb as g

            g.IR.load_protobuf_file(io.BytesIO(data))
        except Exception as e:  # noqa
            bad.append(("C17/valid-file-rejected:%s" % type(e).__name__,
                        label, label, "unchanged", data.hex()))
    best = {}
    for sig, detail, label, what, hexdata in bad:
        old = best.get(sig)
        if old is None or len(hexdata) < len(old[3]):
            best[sig] = (detail, label, what, hexdata)
    for sig, (detail, label, what, hexdata) in sorted(best.items()):
        ctx.violation(sig, {"scenario": "faults", "file": label, "fault": what,
                            "detail": detail, "bytes_hex": hexdata})
    cov = {
        "evaluations": n_bytes + n_struct,
        "distinct_nontrivial": n_bytes + n_struct,
        "rule": "every fault of every class is generated exactly once per "
        "base file (all distinct files); each is non-trivial: it differs from "
        "a valid file in exactly one truncation point, bit, byte or message "
        "field",
        "base_files": [(l, len(d)) for l, d, _ in _FILES],
        "byte_level_faults": n_bytes,
        "structural_faults": n_struct,
        "substitution_values_per_position": (len(SUBST_Q) + 2)
        if ctx.tier == "quick" else 255,
        "exhaustive": n_struct == n_struct_total,
        "samples": ["bitflip@37.2", "truncated-to-100",
                    "uuid-of-code-block:=uuid-of-interval",
                    "message-version=5", "header[7]=03"],
    }
    return ctx.finish(
        "fault_enumeration", cov,
        ["coherence validator mc/checks/c17.py:coherent (C03/C04 conditions, "
         "reference kinds, contents <= size, save/reload deep_eq)",
         "two simultaneous faults are outside the bound"])


def replay(doc):
    from gtirb.version import PROTOBUF_VERSION as PV

    if str(doc.get("signature", "")).endswith(":under-python-O") \
            and __debug__:
        # found in an interpreter without assert statements: replay there
        import json
        import subprocess
        import sys
        import tempfile

        with tempfile.NamedTemporaryFile("w", suffix=".json", delete=False,
                                         dir=os.path.join(common.VERIF,
                                                          ".stage")) as f:
            json.dump(doc, f)
        try:
            return subprocess.run([sys.executable, "-O", "-m", "mc.run",
                                   "--replay", f.name],
                                  cwd=common.VERIF).returncode
        finally:
            os.unlink(f.name)

    data = bytes.fromhex(doc["bytes_hex"])
    r = try_load(data, header_must_fail(data, PV)
                 or str(doc.get("fault", "")).startswith(
                     ("message-version", "header-version")))
    print("file %s fault %s -> %r" % (doc.get("file"), doc.get("fault"), r))
    return 1 if r is not None else 0


def child_main(argv):
    """python -O -m mc.checks.c17 <tier> <outfile>: structural faults only,
    single process"""
    import json

    from ..run import stage

    stage()
    from gtirb.version import PROTOBUF_VERSION as PV

    global _FILES
    tier, outp = argv[0], argv[1]
    _FILES = base_files(tier)
    _TIER[0] = tier
    n = 0
    bad = []
    for fi, (label, data, spec) in enumerate(_FILES):
        if label.endswith("/api"):
            continue
        total = sum(1 for _ in structural_cases(spec, PV))
        k, b = work_struct((fi, 0, total))
        n += k
        bad += b
    with open(outp, "w") as f:
        json.dump({"n": n, "bad": bad, "optimized": not __debug__}, f)
    return 0


if __name__ == "__main__":
    import sys

    sys.exit(child_main(sys.argv[1:]))
