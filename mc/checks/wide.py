"""Magnitude sweeps ("scale" scenario), run in front of every check.

The explorations of the individual checks are exhaustive over SMALL pools
(2-4 siblings per container, values 0..10).  Code that switches algorithm,
representation or bookkeeping above some size (a bulk path for >= 64 blocks,
a tuple bucket promoted to a set at 9 entries, a fast path for operands
smaller than len/8, chunked encoders, page-sized byte vectors) is outside
those pools at any depth.  This module closes that gap with the same oracles
(fresh scans, built-in shadows, the forest relation) over a parametric family:
for EVERY size n in a dense range and at the powers of two +-1 above it, and
for every operand size k in a menu relative to n, a fixed short script of
operations is executed on fresh real objects and checked after every step.

Every script is deterministic; a violation is replayed by re-running the
script for the recorded (script, n)."""

import io
import itertools
import os
import uuid as uuidlib

from .. import common

DENSE = list(range(0, 41))
SPARSE = [63, 64, 65, 66, 127, 128, 129, 255, 256, 257]
SIZES = DENSE + SPARSE


def U(k):
    return uuidlib.UUID(int=0x77000000 + k)


def ks(n):
    """operand sizes relative to n"""
    return sorted({k for k in (0, 1, 2, n // 8, n // 8 + 1, n // 2, n - 1, n)
                   if 0 <= k <= n})


class Bad(Exception):
    def __init__(self, finding, detail):
        Exception.__init__(self, finding)
        self.finding = finding
        self.detail = detail


_SINK = [None, 0]


def need(cond, finding, detail=""):
    """records the finding and goes on: a finding that belongs to another
    property must not hide the ones after it"""
    if not cond:
        if callable(detail):
            detail = detail()
        _SINK[1] += 1
        if _SINK[1] > 200:
            raise Bad(finding, "too many findings in one script run")
        _SINK[0].append((finding, detail if isinstance(detail, str)
                         else repr(detail)))


# ------------------------------------------------------------ structures
RELS = {
    # relation: (child kind, parent attribute, collection attribute)
    "sections": ("S", "module", "sections"),
    "symbols": ("Y", "module", "symbols"),
    "proxies": ("P", "module", "proxies"),
    "byte_intervals": ("B", "section", "byte_intervals"),
    "blocks": ("K", "byte_interval", "blocks"),
}


def mk_child(g, kind, i, base=0):
    u = U(base + i)
    if kind == "S":
        return g.Section(name="s%d" % i, uuid=u)
    if kind == "Y":
        return g.Symbol("y%d" % i, uuid=u)
    if kind == "P":
        return g.ProxyBlock(uuid=u)
    if kind == "B":
        return g.ByteInterval(size=8, address=0x1000 * i, uuid=u)
    if i % 2:
        return g.CodeBlock(size=8, offset=8 * i, uuid=u)
    return g.DataBlock(size=8, offset=8 * i, uuid=u)


def mk_owner(g, rel, ir, tag):
    """an owner for relation rel, attached to ir (or to nothing if None)"""
    t = {"A": 1, "B": 2}[tag]
    m = g.Module(name="m" + tag, uuid=U(900000 + t))
    if ir is not None:
        ir.modules.append(m)
    if rel in ("sections", "symbols", "proxies"):
        return m
    s = g.Section(name="s" + tag, uuid=U(901000 + t), module=m)
    if rel == "byte_intervals":
        return s
    return g.ByteInterval(size=1 << 20, address=0x601000,
                          uuid=U(902000 + t), section=s)


def reachable(g, ir):
    out = {ir.uuid: ir}
    for m in ir.modules:
        out[m.uuid] = m
        for x in itertools.chain(m.sections, m.symbols, m.proxies):
            out[x.uuid] = x
        for s in m.sections:
            for b in s.byte_intervals:
                out[b.uuid] = b
                for k in b.blocks:
                    out[k.uuid] = k
    return out


def check_rel(g, rel, owners, irs, children, where):
    """both ends agree for every child; UUID tables equal reachability"""
    kind, pattr, cattr = RELS[rel]
    for c in children:
        p = getattr(c, pattr)
        holders = [o for o in owners if c in getattr(o, cattr)]
        need(len(holders) <= 1, "C04/scale:child-in-two-collections", where)
        need((p is None and not holders) or (holders and holders[0] is p),
             "C04/scale:ends-disagree",
             lambda: "%s: %s attribute %.80r, member of %d collections"
             % (where, pattr, p, len(holders)))
    for o in owners:
        coll = getattr(o, cattr)
        lst = list(coll)
        need(len(lst) == len(coll) == len({id(x) for x in lst}),
             "C04/scale:collection-iteration", where)
        for c in lst:
            need(getattr(c, pattr) is o, "C04/scale:ends-disagree",
                 "%s: member whose %s is not the owner" % (where, pattr))
    for ir in irs:
        r = reachable(g, ir)
        for c in children:
            got = ir.get_by_uuid(c.uuid)
            want = r.get(c.uuid)
            need(got is want, "C03/scale:%s" % (
                "stale-entry" if want is None else "missing-entry"),
                lambda: "%s: get_by_uuid(%s) is %.80r, reachable %.80r"
                % (where, c.uuid, got, want))


def script_sets(g, rel, n, out):
    """n children in owner A (attached to ir1); B in {same IR, other IR,
    unattached}; every operand size k of ks(n); every (non-)mutating set
    operation; checked after each step"""
    kind, pattr, cattr = RELS[rel]
    steps = 0
    for bwhere in ("same-ir", "other-ir", "unattached"):
        for k in ks(n):
            for op in ("sub", "and", "xor", "or", "rsub", "cmp",
                       "isub", "iand", "ixor", "ior", "update", "update-live",
                       "discard-each", "clear", "pop-all", "ctor"):
                if op in ("clear", "pop-all", "cmp") and k != ks(n)[0]:
                    continue
                ir1, ir2 = g.IR(uuid=U(990001)), g.IR(uuid=U(990002))
                A = mk_owner(g, rel, ir1, "A")
                B = mk_owner(g, rel, {"same-ir": ir1, "other-ir": ir2,
                                      "unattached": None}[bwhere], "B")
                kids = [mk_child(g, kind, i) for i in range(n)]
                getattr(A, cattr).update(kids)
                extra = [mk_child(g, kind, i, base=5000) for i in range(3)]
                getattr(B, cattr).update(extra)
                ca, cb = getattr(A, cattr), getattr(B, cattr)
                S = kids[:k]
                where = "%s n=%d k=%d B=%s op=%s" % (rel, n, k, bwhere, op)
                everyone = kids + extra
                owners = [A, B]
                sa, sb = set(kids), set(extra)
                steps += 1
                try:
                    if op in ("sub", "and", "xor", "or", "rsub", "cmp"):
                        plain = set(S) | set(extra[:1])
                        if op == "sub":
                            r, w = ca - plain, sa - plain
                        elif op == "and":
                            r, w = ca & plain, sa & plain
                        elif op == "xor":
                            r, w = ca ^ plain, sa ^ plain
                        elif op == "or":
                            r, w = ca | plain, sa | plain
                        elif op == "rsub":
                            r, w = plain - ca, plain - sa
                        else:
                            r = (ca == sa, ca <= sa, ca >= set(S),
                                 ca.isdisjoint(sb), len(ca))
                            w = (True, True, True, True, n)
                        need(r == w, "C16/scale:binary-operator-result",
                             "%s: %d elements, expected %d"
                             % (where, len(r) if op != "cmp" else -1,
                                len(w) if op != "cmp" else -1))
                        if op != "cmp":
                            need(type(r) in (set, frozenset),
                                 "C16/scale:binary-operator-type", where)
                            r.clear() if isinstance(r, set) else None
                        need(set(ca) == sa and set(cb) == sb,
                             "C16/scale:non-mutating-operator-mutates",
                             "%s: owner now has %d members, had %d"
                             % (where, len(ca), n))
                    elif op == "isub":
                        ca -= set(S)
                        sa -= set(S)
                    elif op == "iand":
                        ca &= set(S)
                        sa &= set(S)
                    elif op == "ixor":
                        ca ^= set(S) | set(extra[:1])
                        sa ^= set(S) | set(extra[:1])
                        sb -= set(extra[:1])
                    elif op == "ior":
                        cb |= set(S)
                        sb |= set(S)
                        sa -= set(S)
                    elif op == "update":
                        cb.update(S[:k // 2], S[k // 2:])
                        sb |= set(S)
                        sa -= set(S)
                    elif op == "update-live":
                        cb.update(ca)
                        sb |= sa
                        sa = set()
                    elif op == "discard-each":
                        for c in S:
                            ca.discard(c)
                            cb.discard(c)  # not a member there: no effect
                        sa -= set(S)
                    elif op == "clear":
                        ca.clear()
                        sa = set()
                    elif op == "pop-all":
                        got = set()
                        while len(ca):
                            got.add(ca.pop())
                        need(got == sa, "C16/scale:pop", where)
                        sa = set()
                    elif op == "ctor":
                        # a fresh owner built from k of the children
                        kw = {cattr: S}
                        if rel in ("sections", "symbols", "proxies"):
                            C = g.Module(name="c", uuid=U(990010), **kw)
                        elif rel == "byte_intervals":
                            C = g.Section(name="c", uuid=U(990010), **kw)
                        else:
                            C = g.ByteInterval(size=1 << 20, uuid=U(990010),
                                               **kw)
                        need(set(getattr(C, cattr)) == set(S),
                             "C04/scale:constructor-children", where)
                        sa -= set(S)
                        owners.append(C)
                    need(set(ca) == sa and len(ca) == len(sa),
                         "C16/scale:contents", "%s: source has %d, expected %d"
                         % (where, len(ca), len(sa)))
                    need(set(cb) == sb and len(cb) == len(sb),
                         "C16/scale:contents", "%s: target has %d, expected %d"
                         % (where, len(cb), len(sb)))
                    check_rel(g, rel, owners, [ir1, ir2], everyone, where)
                except Bad as e:
                    out.append((e.finding, e.detail))
                except Exception as e:  # noqa
                    out.append(("C16/scale:raises:%s" % type(e).__name__,
                                "%s: %r" % (where, e)))
    return steps


def script_modlist(g, n, out):
    steps = 0
    for op in ("reverse", "del-even", "slice-assign", "extend-live", "iadd",
               "insert-mid", "pop-mid", "setitem-member", "clear", "remove",
               "index-count", "ctor"):
        ir1, ir2 = g.IR(uuid=U(990001)), g.IR(uuid=U(990002))
        ms = [g.Module(name="m%d" % i, uuid=U(i)) for i in range(n)]
        other = [g.Module(name="o%d" % i, uuid=U(6000 + i)) for i in range(3)]
        ir1.modules.extend(ms)
        ir2.modules.extend(other)
        L, sh = ir1.modules, list(ms)
        where = "modules n=%d op=%s" % (n, op)
        steps += 1
        try:
            if op == "reverse":
                L.reverse()
                sh.reverse()
            elif op == "del-even":
                del L[::2]
                del sh[::2]
            elif op == "slice-assign":
                L[1:n // 2] = other[:2]
                sh[1:n // 2] = other[:2]
            elif op == "extend-live":
                ir2.modules.extend(L)
                need(list(ir2.modules) == other + ms,
                     "C16/scale:list-contents", where)
                sh = []
            elif op == "iadd":
                L += other
                sh += other
            elif op == "insert-mid":
                L.insert(n // 2, other[0])
                sh.insert(n // 2, other[0])
            elif op == "pop-mid":
                if n:
                    need(L.pop(n // 2) is sh.pop(n // 2), "C16/scale:pop",
                         where)
            elif op == "setitem-member":
                if n >= 2:
                    L[0] = L[n - 1]
                    sh = [sh[n - 1]] + sh[1:n - 1]
            elif op == "clear":
                L.clear()
                sh = []
            elif op == "remove":
                if n:
                    L.remove(ms[n // 2])
                    sh.remove(ms[n // 2])
            elif op == "index-count":
                for i in (0, n // 2, n - 1):
                    if 0 <= i < n:
                        need(L.index(ms[i]) == i and L.count(ms[i]) == 1,
                             "C16/scale:index-count", where)
                need(L[:] == sh and L[::-1] == sh[::-1]
                     and L[n // 3:n // 2] == sh[n // 3:n // 2],
                     "C16/scale:slicing", where)
            elif op == "ctor":
                ir3 = g.IR(uuid=U(990003), modules=ms)
                need(list(ir3.modules) == ms and list(L) == [],
                     "C04/scale:constructor-children", where)
                sh = []
            need(list(L) == sh and len(L) == len(sh),
                 "C16/scale:list-contents",
                 "%s: %d modules, expected %d" % (where, len(L), len(sh)))
            for ir in (ir1, ir2):
                for m in ms + other:
                    inlist = any(x is m for x in ir.modules)
                    need((m.ir is ir) == inlist, "C04/scale:ends-disagree",
                         where)
                    need((ir.get_by_uuid(m.uuid) is m) == inlist,
                         "C03/scale:%s" % ("missing-entry" if inlist
                                           else "stale-entry"), where)
        except Bad as e:
            out.append((e.finding, e.detail))
        except Exception as e:  # noqa
            out.append(("C16/scale:raises:%s" % type(e).__name__,
                        "%s: %r" % (where, e)))
    return steps


# ----------------------------------------------------------------- lookups
def scan_blocks(blocks, q, mode, by_offset=False, kinds=None):
    r = range(q, q + 1) if isinstance(q, int) else q
    out = []
    for b in blocks:
        if kinds is not None and not isinstance(b, kinds):
            continue
        if by_offset:
            a = b.offset
        else:
            if b.byte_interval is None or b.byte_interval.address is None:
                continue
            a = b.byte_interval.address + b.offset
        if mode == "at":
            if a in r:
                out.append(b)
        else:
            if b.size and max(r.start, a) < min(r.stop, a + b.size):
                out.append(b)
    return out


def same(got, want):
    got = list(got)
    return len(got) == len(want) and {id(x) for x in got} == {
        id(x) for x in want}


def block_queries(base, n):
    span = 8 * n + 16
    qs = [base - 1, base, base + 7, base + 8 * (n // 2), base + 8 * n - 1,
          base + 8 * n, range(base, base + span), range(base, base + span, 8),
          range(base + 4, base + span, 8), range(base, base + span, 16),
          range(base + 8 * (n // 2), base + 8 * (n // 2) + 9)]
    qs += [base + 8 * i for i in range(0, n, max(1, n // 16))]
    return qs


def check_block_lookups(g, ir, bi, where, prop):
    m = bi.section.module
    s = bi.section
    blocks = list(bi.blocks)
    n = len(blocks)
    light = n > 45
    for q in block_queries(bi.address, n):
        for mode in ("on", "at"):
            for pre, kinds in (("byte", None), ("code", g.CodeBlock),
                               ("data", g.DataBlock)):
                if light and pre == "data":
                    continue
                want = scan_blocks(blocks, q, mode, False, kinds)
                for scope in ((bi, ir) if light else (bi, s, m, ir)):
                    got = getattr(scope, "%s_blocks_%s" % (pre, mode))(q)
                    got = list(got)
                    need(same(got, want), "%s/scale:%s_blocks_%s:%s"
                         % (prop, pre, mode, type(scope).__name__),
                         lambda: "%s: query %r: %d blocks, fresh scan %d"
                         % (where, q, len(got), len(want)))
    for q in block_queries(0, n):
        for mode in ("on", "at"):
            want = scan_blocks(blocks, q, mode, True)
            got = getattr(bi, "byte_blocks_%s_offset" % mode)(q)
            need(same(got, want), "%s/scale:byte_blocks_%s_offset"
                 % (prop, mode), "%s: query %r" % (where, q))


def script_blocks(g, n, prop, out):
    """interval with n blocks: {no lookup, lookup} first, then one edit batch
    of every size k, then all lookups against a fresh scan"""
    steps = 0
    for pre in ("cold", "warm"):
        for batch in ("move-out-and-back", "shift-offsets", "discard-readd",
                      "bulk-add", "sizes", "to-other-interval",
                      "there-and-back", "replace-same-extent",
                      "park-then-move-on"):
            for k in ks(n):
                if n > 40 and n not in (64, 65) and batch in (
                        "there-and-back", "replace-same-extent",
                        "park-then-move-on"):
                    continue
                ir = g.IR(uuid=U(990001))
                m = g.Module(name="m", uuid=U(990004), ir=ir)
                s = g.Section(name="s", uuid=U(990005), module=m)
                bi = g.ByteInterval(size=1 << 20, address=0x601000,
                                    uuid=U(990006), section=s)
                scratch = g.ByteInterval(size=1 << 20, address=0x10,
                                         uuid=U(990007), section=s)
                kids = [mk_child(g, "K", i) for i in range(n)]
                bi.blocks.update(kids)
                where = "blocks n=%d %s %s k=%d" % (n, pre, batch, k)
                steps += 1
                try:
                    if pre == "warm":
                        list(bi.byte_blocks_on(0x601000))
                        list(scratch.byte_blocks_on(0))
                        list(s.byte_blocks_at(0x601000))
                    S = kids[:k]
                    if batch == "move-out-and-back":
                        scratch.blocks.update(S)
                        bi.blocks.update(S)
                    elif batch == "shift-offsets":
                        for b in S:
                            b.offset += 4
                    elif batch == "discard-readd":
                        for i_, b in enumerate(S):
                            if i_ % 2:
                                bi.blocks.remove(b)
                            else:
                                bi.blocks.discard(b)
                        need(all(b.byte_interval is None for b in S),
                             "C04/scale:ends-disagree", where)
                        half = S[:len(S) // 2]
                        check_block_lookups(g, ir, bi, where + " (removed)",
                                            prop) if n <= 45 else None
                        for b in S:
                            bi.blocks.add(b)
                        del half
                    elif batch == "bulk-add":
                        new = [mk_child(g, "K", n + i) for i in range(k)]
                        bi.blocks.update(new)
                        kids = kids + new
                    elif batch == "there-and-back":
                        for b in S:
                            b.offset += 4
                            b.offset -= 4
                        for b in S[:2]:
                            b.size += 1
                            b.size -= 1
                    elif batch == "replace-same-extent":
                        # another node with exactly the extent of the one
                        # that just left (a data block re-typed as code)
                        new = []
                        for i, b in enumerate(S):
                            bi.blocks.discard(b)
                            nb = (g.DataBlock if isinstance(b, g.CodeBlock)
                                  else g.CodeBlock)(
                                      offset=b.offset, size=b.size,
                                      uuid=U(700000 + i))
                            bi.blocks.add(nb)
                            new.append(nb)
                        kids = [b for b in kids if b not in S] + new
                    elif batch == "park-then-move-on":
                        third = g.ByteInterval(size=1 << 20, address=0x20,
                                               uuid=U(990013), section=s)
                        for b in S:
                            scratch.blocks.add(b)
                            third.blocks.add(b)
                        need(len(scratch.blocks) == 0, "C16/scale:contents",
                             where)
                        need(same(scratch.byte_blocks_on(range(0, 1 << 21)),
                                  []), "%s/scale:byte_blocks_on:parking-"
                             "interval-keeps-blocks" % prop, where)
                        kids = [b for b in kids if b not in S]
                        scratch = third
                    elif batch == "sizes":
                        for b in S:
                            b.size = 0 if b.size else 4
                    elif batch == "to-other-interval":
                        scratch.blocks.update(S)
                        need(same(scratch.byte_blocks_on(
                            range(0, 1 << 20)),
                            [b for b in S if b.size]),
                            "%s/scale:byte_blocks_on:target-interval" % prop,
                            where)
                    if batch not in ("park-then-move-on",
                                     "replace-same-extent"):
                        need(len(bi.blocks) + len(scratch.blocks)
                             == len(kids), "C16/scale:contents", where)
                    check_block_lookups(g, ir, bi, where, prop)
                    if n <= 45:
                        # once more: answers must not depend on the lookups
                        check_block_lookups(g, ir, bi, where + " (again)",
                                            prop)
                except Bad as e:
                    out.append((e.finding, e.detail))
                except Exception as e:  # noqa
                    import traceback

                    tb = traceback.format_exc()
                    # raised by a lookup: the index property; raised by an
                    # edit: the collection / containment properties
                    who = ((prop,) if "check_block_lookups" in tb
                           or "_blocks_" in tb.split("\n")[-3]
                           else ("C04", "C16"))
                    for p_ in who:
                        out.append(("%s/scale:raises:%s"
                                    % (p_, type(e).__name__),
                                    "%s: %r" % (where, e)))
    return steps


def script_intervals(g, n, out):
    """section with n intervals: lookups, extents, remove/re-add, edits"""
    steps = 0
    for pre in ("cold", "warm"):
        for batch in ("discard-readd", "move-out-and-back", "addr-edit",
                      "addr-none", "bulk-add", "there-and-back",
                      "replace-same-extent", "park-then-move-on"):
            for k in ks(n):
                ir = g.IR(uuid=U(990001))
                m = g.Module(name="m", uuid=U(990004), ir=ir)
                s = g.Section(name="s", uuid=U(990005), module=m)
                s2 = g.Section(name="t", uuid=U(990008), module=m)
                ivs = [g.ByteInterval(size=0x800, address=0x1000 * (i + 1),
                                      uuid=U(i)) for i in range(n)]
                ysym = g.Symbol("y", uuid=U(990009), module=m)
                for i, b in enumerate(ivs):
                    b.symbolic_expressions[8] = g.SymAddrConst(i, ysym)
                s.byte_intervals.update(ivs)
                where = "intervals n=%d %s %s k=%d" % (n, pre, batch, k)
                steps += 1
                try:
                    if pre == "warm":
                        s.address, s.size
                        list(s.byte_intervals_on(0x1000))
                        list(m.sections_on(0x1000))
                        list(s.symbolic_expressions_at(range(0, 1 << 30)))
                    S = ivs[:k]
                    if batch == "discard-readd":
                        for b in S:
                            s.byte_intervals.discard(b)
                        for b in S:
                            s.byte_intervals.add(b)
                    elif batch == "move-out-and-back":
                        s2.byte_intervals.update(S)
                        s.byte_intervals.update(S)
                    elif batch == "addr-edit":
                        for b in S:
                            b.address += 0x400
                    elif batch == "there-and-back":
                        for b in S:
                            b.address += 0x200
                            b.address -= 0x200
                        for b in S[:2]:
                            b.size += 1
                            b.size -= 1
                    elif batch == "replace-same-extent":
                        new = []
                        for i, b in enumerate(S):
                            s.byte_intervals.discard(b)
                            nb = g.ByteInterval(size=b.size,
                                                address=b.address,
                                                uuid=U(700000 + i))
                            s.byte_intervals.add(nb)
                            new.append(nb)
                        ivs = [b for b in ivs if b not in S] + new
                    elif batch == "park-then-move-on":
                        s3 = g.Section(name="u", uuid=U(990015), module=m)
                        for b in S:
                            s2.byte_intervals.add(b)
                            s3.byte_intervals.add(b)
                        need(same(s2.byte_intervals_on(range(0, 1 << 30)),
                                  []) and s2.address is None,
                             "C06/scale:byte_intervals_on:parking-section-"
                             "keeps-intervals", where)
                        ivs = [b for b in ivs if b not in S]
                    elif batch == "addr-none":
                        for b in S[:1]:
                            b.address = None
                    elif batch == "bulk-add":
                        new = [g.ByteInterval(size=0x800,
                                              address=0x1000 * (n + i + 1),
                                              uuid=U(n + i))
                               for i in range(k)]
                        s.byte_intervals.update(new)
                        ivs = ivs + new
                    cur = list(s.byte_intervals)
                    need(len(cur) == len(ivs), "C16/scale:contents", where)
                    if cur and all(b.address is not None for b in cur):
                        lo = min(b.address for b in cur)
                        hi = max(b.address + b.size for b in cur)
                        wa, ws = lo, hi - lo
                    else:
                        wa = ws = None
                    need((s.address, s.size) == (wa, ws),
                         "C06/scale:section-extent",
                         "%s: (%r, %r), expected (%r, %r)"
                         % (where, s.address, s.size, wa, ws))
                    top = 0x1000 * (len(ivs) + 3)
                    for q in (0x1000, 0x1400, 0x17ff, 0x1800,
                              0x1000 * (n // 2 + 1), range(0, top),
                              range(0, top, 0x1000), range(0x400, top, 0x1000),
                              range(0x1000 * n, top)):
                        r = range(q, q + 1) if isinstance(q, int) else q
                        on = [b for b in cur if b.address is not None and
                              b.size and max(r.start, b.address) <
                              min(r.stop, b.address + b.size)]
                        at = [b for b in cur if b.address is not None and
                              b.address in r]
                        allm = [b for sec in m.sections
                                for b in sec.byte_intervals]
                        on_m = [b for b in allm if b.address is not None and
                                b.size and max(r.start, b.address) <
                                min(r.stop, b.address + b.size)]
                        at_m = [b for b in allm if b.address is not None and
                                b.address in r]
                        for scope in (s, m, ir):
                            if scope is not s:
                                on, at = on_m, at_m
                            need(same(scope.byte_intervals_on(q), on),
                                 "C06/scale:byte_intervals_on:%s"
                                 % type(scope).__name__,
                                 "%s query %r" % (where, q))
                            need(same(scope.byte_intervals_at(q), at),
                                 "C06/scale:byte_intervals_at:%s"
                                 % type(scope).__name__,
                                 "%s query %r" % (where, q))
                        for scope, pool in ((s, cur), (m, allm), (ir, allm)):
                            want = sorted(
                                (id(b), o) for b in pool
                                if b.address is not None
                                for o in b.symbolic_expressions
                                if b.address + o in r)
                            got = sorted(
                                (id(b), o) for b, o, e in
                                scope.symbolic_expressions_at(q))
                            need(got == want,
                                 "C13/scale:at:%s-after-interval-edits"
                                 % type(scope).__name__,
                                 lambda: "%s query %r: %d triples, fresh "
                                 "scan %d" % (where, q, len(got), len(want)))
                        if wa is not None:
                            son = [s] if ws and max(r.start, wa) < min(
                                r.stop, wa + ws) else []
                            sat = [s] if wa in r else []
                            for scope in (m, ir):
                                need(same([x for x in scope.sections_on(q)
                                           if x is s], son),
                                     "C06/scale:sections_on", where)
                                need(same([x for x in scope.sections_at(q)
                                           if x is s], sat),
                                     "C06/scale:sections_at", where)
                except Bad as e:
                    out.append((e.finding, e.detail))
                except Exception as e:  # noqa
                    out.append(("C06/scale:raises:%s" % type(e).__name__,
                                "%s: %r" % (where, e)))
    return steps


def script_symexprs(g, n, out):
    steps = 0
    for layout in ("dense8", "dense2", "sparse"):
        ir = g.IR(uuid=U(990001))
        m = g.Module(name="m", uuid=U(990004), ir=ir)
        s = g.Section(name="s", uuid=U(990005), module=m)
        size = 1 << 20
        bi = g.ByteInterval(size=size, address=0x601000, uuid=U(990006),
                            section=s)
        y = g.Symbol("y", uuid=U(990009), module=m)
        step = {"dense8": 8, "dense2": 2, "sparse": 4099}[layout]
        offs = [i * step for i in range(n) if i * step < size]
        where = "symexprs n=%d %s" % (n, layout)
        steps += 1
        try:
            for i, o in enumerate(offs):
                bi.symbolic_expressions[o] = g.SymAddrConst(i, y)
            d = bi.symbolic_expressions
            need(list(d) == offs and len(d) == len(offs),
                 "C16/scale:mapping-iteration", where)
            top = (offs[-1] if offs else 0) + step + 1
            qs = [0, top - 1, range(0, top), range(0, top, step),
                  range(0, top, 2 * step), range(step, top, step),
                  range(0, max(1, top - step - 1), step)]
            if offs:
                qs += [offs[-1], range(offs[-1], offs[-1] + 1),
                       range(offs[len(offs) // 2], top, step)]
            for q in qs:
                r = range(q, q + 1) if isinstance(q, int) else q
                want = [(o, d[o]) for o in offs if o in r]
                got = [(o, e) for b, o, e in
                       bi.symbolic_expressions_at_offset(q)]
                need(got == want, "C13/scale:at_offset",
                     "%s: query %r gives %d triples, fresh scan %d"
                     % (where, q, len(got), len(want)))
                if isinstance(q, int):
                    qa = q + bi.address
                else:
                    qa = range(q.start + bi.address, q.stop + bi.address,
                               q.step)
                for scope in (bi, s, m, ir):
                    got = [(o, e) for b, o, e in
                           scope.symbolic_expressions_at(qa)]
                    need(got == want, "C13/scale:at:%s"
                         % type(scope).__name__,
                         "%s: query %r gives %d triples, fresh scan %d"
                         % (where, qa, len(got), len(want)))
            # mapping interface at this size
            if offs:
                k0 = offs[len(offs) // 2]
                e0 = d.pop(k0)
                need(k0 not in d and len(d) == len(offs) - 1,
                     "C16/scale:mapping-pop", where)
                d[k0] = e0
                need(list(d) == offs, "C16/scale:mapping-iteration", where)
                last = d.popitem()
                need(last[0] in offs and last[0] not in d,
                     "C16/scale:mapping-popitem", where)
        except Bad as e:
            out.append((e.finding, e.detail))
        except Exception as e:  # noqa
            out.append(("C13/scale:raises:%s" % type(e).__name__,
                        "%s: %r" % (where, e)))
    return steps


def script_symbols(g, n, out):
    """n symbols sharing one name and n symbols sharing one referent, added
    one by one; then renames, payload changes, removals"""
    steps = 0
    m = g.Module(name="m", uuid=U(990004))
    m2 = g.Module(name="m2", uuid=U(990014))
    s = g.Section(name="s", uuid=U(990005), module=m)
    bi = g.ByteInterval(size=64, address=0, uuid=U(990006), section=s)
    k1 = g.CodeBlock(size=1, uuid=U(990011), byte_interval=bi)
    p1 = g.ProxyBlock(uuid=U(990012), module=m)
    syms = []
    where = "symbols n=%d" % n

    def chk(tag):
        named = {}
        refs = {}
        for y in m.symbols:
            named.setdefault(y.name, []).append(y)
            if y.referent is not None:
                refs.setdefault(id(y.referent), []).append(y)
        for name in ("$d", "other", "renamed", ""):
            need(same(m.symbols_named(name), named.get(name, [])),
                 "C10/scale:symbols_named",
                 "%s %s: symbols_named(%r) gives %d, expected %d"
                 % (where, tag, name, len(list(m.symbols_named(name))),
                    len(named.get(name, []))))
        for b in (k1, p1):
            need(same(b.references, refs.get(id(b), [])),
                 "C10/scale:references",
                 "%s %s: %d references, expected %d"
                 % (where, tag, len(list(b.references)),
                    len(refs.get(id(b), []))))

    try:
        # names that are patterns for some matcher, next to names they match
        pairs = ["type.[4]uint8", "type.4uint8", "?f@@YAXXZ", "_f@@YAXXZ",
                 "a*", "ab", "a.c", "abc", "%s", "{0}", "A", "a", "",
                 "caf\u00e9", "cafe\u0301", "x\0", "x"]
        pat = [g.Symbol(nm, uuid=U(800000 + i), module=m)
               for i, nm in enumerate(pairs)]
        for nm in pairs + ["type.*", "?", "*", "[a]"]:
            need(same(m.symbols_named(nm), [y for y in pat if y.name == nm]),
                 "C10/scale:symbols_named:name-with-metacharacters",
                 lambda: "symbols_named(%r) gives %r" % (
                     nm, [y.name for y in m.symbols_named(nm)]))
        for y in pat:
            m.symbols.discard(y)
        for i in range(n):
            y = g.Symbol("$d", payload=k1 if i % 2 else p1, uuid=U(i))
            if i % 3 == 0:
                m.symbols.add(y)
            elif i % 3 == 1:
                y.module = m
            else:
                m.symbols.update([y])
            syms.append(y)
            steps += 1
            if n <= 40 or i in (n - 1, n // 2):
                chk("after add %d" % i)
        chk("built")
        for y in syms[::2]:
            y.name = "renamed"
        chk("renamed half")
        for y in syms[::3]:
            y.referent = k1
        chk("retargeted third")
        for y in syms[1::4]:
            y.value = 7
        chk("values")
        m2.symbols.update(syms[:n // 2])
        chk("moved half away")
        m.symbols |= m2.symbols
        chk("moved back")
        for y in syms[:n // 2]:
            m.symbols.discard(y)
        chk("discarded half")
        steps += 7
    except Bad as e:
        out.append((e.finding, e.detail))
    except Exception as e:  # noqa
        import traceback

        tb = traceback.format_exc()
        who = ("C10",) if ("symbols_named" in tb or "references" in tb
                           or "_index" in tb or ".name" in tb) \
            else ("C16", "C04")
        for p_ in who:
            out.append(("%s/scale:raises:%s" % (p_, type(e).__name__),
                        "%s: %r" % (where, e)))
    return steps


def script_cfg(g, n, out):
    """CFG of n edges; operands of every type and every size of ks(n)"""
    import operator

    steps = 0
    nodes = [g.CodeBlock(uuid=U(i)) if i % 3 else g.ProxyBlock(uuid=U(i))
             for i in range(max(2, int(n ** 0.5) + 2))]
    labels = [None, g.Edge.Label(g.Edge.Type.Branch),
              g.Edge.Label(g.Edge.Type.Call, conditional=True),
              g.Edge.Label(g.Edge.Type.Return, direct=False)]
    univ = []
    for i in range(n + 3):
        a = nodes[i % len(nodes)]
        b = nodes[(i // len(nodes)) % len(nodes)]
        univ.append(g.Edge(a, b, labels[(i // (len(nodes) ** 2))
                                        % len(labels)]))
    # parallel edges that differ only in the TYPE of their label coexist,
    # for every member the enum declares (by name)
    try:
        names = list(g.Edge.Type.__members__)
        ir0 = g.IR(uuid=U(990001))
        for flags in ((False, True), (True, False)):
            es = [g.Edge(nodes[0], nodes[1],
                         g.Edge.Label(g.Edge.Type.__members__[nm], *flags))
                  for nm in names]
            ir0.cfg.clear()
            ir0.cfg.update(es)
            need(len(ir0.cfg) == len(names) and len(set(es)) == len(names),
                 "C11/scale:edges-differing-only-in-label-type-coincide",
                 "%d edge types by name, %d edges in the CFG"
                 % (len(names), len(ir0.cfg)))
            ir0.cfg.discard(es[-1])
            need(len(ir0.cfg) == len(names) - 1 and all(
                e in ir0.cfg for e in es[:-1]),
                "C11/scale:edges-differing-only-in-label-type-coincide",
                "discarding one removed another")
    except Exception as e:  # noqa
        out.append(("C11/scale:raises:%s" % type(e).__name__, repr(e)))
    univ = list(dict.fromkeys(univ))
    n = min(n, len(univ) - 1)
    base, spare = univ[:n], univ[n:]
    for optype in ("set", "frozenset", "CFG", "keys", "list"):
        for k in ks(n):
            for op in ("isub", "iand", "ior", "ixor", "update", "sub", "and",
                       "cmp"):
                if optype == "list" and op != "update":
                    continue
                if op == "update" and optype not in ("list", "CFG", "set"):
                    continue
                ir = g.IR(uuid=U(990001))
                cfg = ir.cfg
                cfg.update(base)
                model = set(base)
                els = base[:k] + spare[:1]
                operand = {"set": set, "frozenset": frozenset,
                           "CFG": g.CFG, "list": list,
                           "keys": lambda x: dict.fromkeys(x).keys()}[
                               optype](els)
                where = "cfg n=%d operand=%s k=%d op=%s" % (n, optype, k, op)
                steps += 1
                try:
                    if op == "isub":
                        cfg -= operand
                        model -= set(els)
                    elif op == "iand":
                        cfg &= operand
                        model &= set(els)
                    elif op == "ior":
                        cfg |= operand
                        model |= set(els)
                    elif op == "ixor":
                        cfg ^= operand
                        model ^= set(els)
                    elif op == "update":
                        cfg.update(operand)
                        model |= set(els)
                    elif op == "sub":
                        r = cfg - operand
                        need(set(r) == model - set(els),
                             "C11/scale:binary-result", where)
                    elif op == "and":
                        r = cfg & operand
                        need(set(r) == model & set(els),
                             "C11/scale:binary-result", where)
                    else:
                        need((cfg == model) and (cfg >= set(base[:k]))
                             and not (cfg <= set(base[:max(0, n - 1)])
                                      and n > 0),
                             "C11/scale:comparison", where)
                    need(ir.cfg is cfg, "C11/scale:return-not-self", where)
                    got = list(cfg)
                    need(len(got) == len(cfg) == len(model)
                         and set(got) == model, "C11/scale:contents",
                         "%s: %d edges, expected %d"
                         % (where, len(got), len(model)))
                    for e in (base[:1] + base[k:k + 1] + spare[:2]):
                        need((e in cfg) == (e in model),
                             "C11/scale:membership", where)
                    for nd in nodes[:4]:
                        need(set(cfg.out_edges(nd)) == {
                            e for e in model if e.source is nd},
                            "C11/scale:out_edges", where)
                        need(set(cfg.in_edges(nd)) == {
                            e for e in model if e.target is nd},
                            "C11/scale:in_edges", where)
                except Bad as e:
                    out.append((e.finding, e.detail))
                except Exception as e:  # noqa
                    out.append(("C11/scale:raises:%s" % type(e).__name__,
                                "%s: %r" % (where, e)))
    return steps


# ---------------------------------------------------------------- deep_eq
def script_deep_eq(g, n, out):
    """two independently built copies of an IR with n children everywhere;
    every single-field perturbation of one chosen child per container"""
    from .. import ircases, irgen

    steps = 0
    spec = ircases.large_cases_for(n)[1]
    where = "deep_eq n=%d" % n

    def build():
        x, _ = irgen.build_ir(spec, "topdown")
        return x

    try:
        a, b = build(), build()
        need(a.deep_eq(b) and b.deep_eq(a), "C18/scale:equal-copies-differ",
             where)
        buf = io.BytesIO()
        a.save_protobuf_file(buf)
        c = g.IR.load_protobuf_file(io.BytesIO(buf.getvalue()))
        need(a.deep_eq(c) and c.deep_eq(a), "C18/scale:loaded-copy-differs",
             where)
        steps += 2

        def first(it, pred=lambda x: True, pick=-1):
            xs = sorted((x for x in it if pred(x)), key=lambda x: x.uuid.int)
            return xs[pick] if xs else None

        def perturbations(x):
            m = first(x.modules, lambda mm: len(mm.sections) > 1)
            s = first(m.sections, lambda ss: len(ss.byte_intervals) > 1)
            bi = first(s.byte_intervals, lambda bb: len(bb.blocks) > 1)
            kc = first(bi.blocks, lambda k: isinstance(k, g.CodeBlock))
            kd = first(bi.blocks, lambda k: isinstance(k, g.DataBlock))
            iv = first(s.byte_intervals, lambda bb: not len(bb.blocks))
            y = first(m.symbols)
            px = first(m.proxies)
            sec = first(m.sections, lambda ss: not len(ss.byte_intervals))
            mod = first(x.modules, lambda mm: not len(mm.sections))
            yield "code-block.decode_mode", lambda: setattr(
                kc, "decode_mode", g.CodeBlock.DecodeMode.Thumb
                if kc.decode_mode != g.CodeBlock.DecodeMode.Thumb
                else g.CodeBlock.DecodeMode.Default)
            yield "code-block.size", lambda: setattr(kc, "size", kc.size + 1)
            yield "data-block.offset", lambda: setattr(kd, "offset",
                                                       kd.offset + 1)
            yield "block-removed", lambda: bi.blocks.discard(kd)
            yield "interval.address", lambda: setattr(iv, "address",
                                                      iv.address + 1)
            yield "interval.size", lambda: setattr(iv, "size", iv.size + 1)
            yield "interval-removed", lambda: s.byte_intervals.discard(iv)
            yield "interval.contents", lambda: bi.contents.__setitem__(
                len(bi.contents) - 1, 1)
            yield "symbol.name", lambda: setattr(y, "name", y.name + "x")
            yield "symbol.at_end", lambda: setattr(y, "at_end", not y.at_end)
            yield "symbol-removed", lambda: m.symbols.discard(
                first(m.symbols, lambda q: q.name.startswith("long")))
            yield "proxy-added", lambda: m.proxies.add(
                g.ProxyBlock(uuid=U(990099)))
            yield "section.name", lambda: setattr(sec, "name", "zz")
            yield "section.flags", lambda: sec.flags.symmetric_difference_update(
                {g.Section.Flag.Executable})
            yield "section-removed", lambda: m.sections.discard(sec)
            yield "module.name", lambda: setattr(mod, "name", "zz")
            yield "module-removed", lambda: x.modules.remove(mod)
            e = sorted(x.cfg, key=lambda e_: (e_.source.uuid.int,
                                              e_.target.uuid.int,
                                              str(e_.label)))[-1]
            yield "edge-removed", lambda: x.cfg.discard(e)
            yield "edge.label", lambda: (x.cfg.discard(e), x.cfg.add(g.Edge(
                e.source, e.target, g.Edge.Label(g.Edge.Type.Syscall))))
            off = max(bi.symbolic_expressions)
            ex = bi.symbolic_expressions[off]
            yield "symexpr-removed", lambda: bi.symbolic_expressions.pop(off)
            yield "symexpr.offset", lambda: setattr(ex, "offset",
                                                    ex.offset + 1)
            yield "symexpr-moved", lambda: bi.symbolic_expressions.__setitem__(
                off + 1, bi.symbolic_expressions.pop(off))
            yield "aux-key-added", lambda: m.aux_data.__setitem__(
                "extra", g.AuxData(1, "uint8_t"))
            yield "aux-key-removed", lambda: x.aux_data.pop("neg64")

        # a block that belongs to neither IR any more (its edges discarded
        # and the block detached on both sides) is no content of either:
        # whatever it looks like, the IRs are still equal
        x1, x2 = build(), build()
        for x in (x1, x2):
            m = sorted(x.modules, key=lambda mm: -len(mm.sections))[0]
            bi = max((b for s_ in m.sections for b in s_.byte_intervals),
                     key=lambda b: len(b.blocks))
            kc = sorted((e_.source for e_ in x.cfg
                         if isinstance(e_.source, g.CodeBlock)),
                        key=lambda k: k.uuid.int)[0]
            bi = kc.byte_interval
            m = kc.module
            for e in list(x.cfg):
                if e.source is kc or e.target is kc:
                    x.cfg.discard(e)
            for y_ in list(m.symbols):
                if y_.referent is kc:
                    y_.referent = None
            if m.entry_point is kc:
                m.entry_point = None
            bi.blocks.discard(kc)
            if x is x1:
                kc.size += 3
                kc.decode_mode = g.CodeBlock.DecodeMode.Thumb
        steps += 1
        need(x1.deep_eq(x2) and x2.deep_eq(x1),
             "C18/scale:false-for-equal:detached-block-differs",
             "%s: a block with no edges left and detached from both IRs "
             "differs; deep_eq says the IRs differ" % where)
        names = [nm for nm, _ in perturbations(build())]
        for nm in names:
            x = build()
            for nm2, fn in perturbations(x):
                if nm2 == nm:
                    fn()
                    break
            steps += 1
            need(not a.deep_eq(x) and not x.deep_eq(a),
                 "C18/scale:true-for-different:%s" % nm,
                 "%s: one %s differs, deep_eq says equal (a.deep_eq(x)=%r, "
                 "x.deep_eq(a)=%r)" % (where, nm, a.deep_eq(x), x.deep_eq(a)))
            need(a.deep_eq(b), "C18/scale:depends-on-earlier-calls", where)
    except Bad as e:
        out.append((e.finding, e.detail))
    except Exception as e:  # noqa
        import traceback

        out.append(("C18/scale:raises:%s" % type(e).__name__,
                    "%s: %s" % (where, traceback.format_exc()[-400:])))
    return steps


# ------------------------------------------------------------------ bytes
def script_bytes(g, n, out):
    """contents of n pages worth of data followed by z zero bytes; block
    views, save + load"""
    steps = 0
    for z, data_len, addr in [(z_, d_, 0x1000)
                              for z_ in (0, 1, 4095, 4096, 4097, 8192, 12288)
                              for d_ in (0, 1, n, 4096, 4097)] + [
                                  (0, n, None), (4096, 1, None), (0, 0, None),
                                  (0, n, 0)]:
        if True:
            data = bytes((i * 31) % 255 + 1 for i in range(data_len))
            stored = data + bytes(z)
            where = "bytes data=%d zeros=%d address=%r" % (data_len, z, addr)
            steps += 1
            try:
                ir = g.IR(uuid=U(990001))
                m = g.Module(name="m", uuid=U(990004), ir=ir)
                s = g.Section(name="s", uuid=U(990005), module=m)
                g.ByteInterval(size=4, address=0x10, uuid=U(990016),
                               section=s)
                bi = g.ByteInterval(size=len(stored) + 4096, address=addr,
                                    contents=stored, uuid=U(990006),
                                    section=s)
                ks_ = [g.DataBlock(offset=o, size=16, uuid=U(i),
                                   byte_interval=bi)
                       for i, o in enumerate((0, max(0, data_len - 8),
                                              max(0, len(stored) - 16),
                                              len(stored) + 10))]
                need(bi.initialized_size == len(stored),
                     "C19/scale:initialized_size", where)
                buf = io.BytesIO()
                ir.save_protobuf_file(buf)
                ir2 = g.IR.load_protobuf_file(io.BytesIO(buf.getvalue()))
                b2 = ir2.get_by_uuid(bi.uuid)
                need(b2 is not None, "C19/scale:interval-lost-by-save-load",
                     where)
                if b2 is None:
                    continue
                need(b2.initialized_size == len(stored)
                     and bytes(b2.contents) == stored and b2.size == bi.size,
                     "C19/scale:save-load-changes-stored-bytes",
                     "%s: %d bytes stored, %d after save+load"
                     % (where, len(stored), len(b2.contents)))
                need(ir.deep_eq(ir2) and ir2.deep_eq(ir),
                     "C19/scale:save-load-not-deep_eq", where)
                for k in ks_:
                    k2 = ir2.get_by_uuid(k.uuid)
                    want = stored[k.offset:k.offset + k.size]
                    need(bytes(k.contents) == want
                         and bytes(k2.contents) == want,
                         "C19/scale:block-contents", where)
                # zero-fill by assignment survives the round trip too
                bi.initialized_size = len(stored) + 4096
                buf = io.BytesIO()
                ir.save_protobuf_file(buf)
                b3 = g.IR.load_protobuf_file(
                    io.BytesIO(buf.getvalue())).get_by_uuid(bi.uuid)
                need(b3.initialized_size == len(stored) + 4096,
                     "C19/scale:save-load-changes-stored-bytes",
                     where + " after initialized_size = size")
            except Bad as e:
                out.append((e.finding, e.detail))
            except Exception as e:  # noqa
                out.append(("C19/scale:raises:%s" % type(e).__name__,
                            "%s: %r" % (where, e)))
    return steps


def script_addrspace(g, n, out):
    """C19 over the coincidence cases: every enum constant of the module x
    extents ending at 2^16 / 2^31 / 2^32 / 2^63 / 2^64: size and
    initialized_size assignments, then save + load"""
    from .. import ircases, irgen

    steps = 0
    cases = ircases.coincidence_cases()
    for label, spec in cases[n::4]:
        where = "addrspace %s" % label
        steps += 1
        try:
            x, _ = irgen.build_ir(spec, "topdown")
            want = {}
            for m in x.modules:
                for s in m.sections:
                    for b in s.byte_intervals:
                        sz = b.size
                        b.size = sz + 1
                        b.size = sz
                        b.initialized_size = min(sz, 8)
                        b.initialized_size = min(sz, 4)
                        want[b.uuid] = (b.address, b.size, bytes(b.contents))
                        need(b.initialized_size == len(b.contents)
                             <= b.size, "C19/coincidence:initialized_size",
                             where)
            buf = io.BytesIO()
            x.save_protobuf_file(buf)
            try:
                y = g.IR.load_protobuf_file(io.BytesIO(buf.getvalue()))
            except Exception as e:  # noqa
                need(False, "C19/coincidence:saved-interval-not-loadable:%s"
                     % type(e).__name__, "%s: %r" % (where, e))
                continue
            for u, (a, sz, data) in want.items():
                b2 = y.get_by_uuid(u)
                need(b2 is not None and (b2.address, b2.size,
                                         bytes(b2.contents)) == (a, sz, data),
                     "C19/coincidence:save-load-changes-interval", where)
                for k in (b2.blocks if b2 is not None else ()):
                    need(k.address == a + k.offset
                         and bytes(k.contents)
                         == data[k.offset:k.offset + k.size]
                         and k.contains_address(a + k.offset) == bool(k.size),
                         "C19/coincidence:block-view", where)
        except Bad as e:
            out.append((e.finding, e.detail))
        except Exception as e:  # noqa
            out.append(("C19/coincidence:raises:%s" % type(e).__name__,
                        "%s: %r" % (where, e)))
    return steps


# ----------------------------------------------------------------- big file
def script_bigfile(g, n, out):
    """header faults on a file of n MiB, through both entry points"""
    from gtirb.version import PROTOBUF_VERSION as PV

    steps = 0
    ir = g.IR(uuid=U(990001))
    m = g.Module(name="m", uuid=U(990004), ir=ir)
    s = g.Section(name="s", uuid=U(990005), module=m)
    g.ByteInterval(size=n << 20, address=0x1000, uuid=U(990006), section=s,
                   contents=bytes(range(256)) * ((n << 20) // 256))
    buf = io.BytesIO()
    ir.save_protobuf_file(buf)
    good = buf.getvalue()
    d = os.path.join(common.VERIF, ".stage")
    os.makedirs(d, exist_ok=True)
    path = os.path.join(d, "bigfile_%d.gtirb" % os.getpid())
    variants = [("good", good, None)]
    for name, hdr in (("magic", b"GTIRC\0\0" + bytes([PV])),
                      ("version+1", b"GTIRB\0\0" + bytes([PV + 1])),
                      ("version-0", b"GTIRB\0\0\0"),
                      ("version-255", b"GTIRB\0\0\xff"),
                      ("lowercase", b"gtirb\0\0" + bytes([PV]))):
        variants.append((name, hdr + good[8:], ValueError))
    variants.append(("cut-in-half", good[:len(good) // 2], Exception))
    try:
        for name, data, want in variants:
            for entry in ("stream", "path"):
                where = "bigfile %d MiB %s via %s" % (n, name, entry)
                steps += 1
                exc = None
                try:
                    if entry == "stream":
                        y = g.IR.load_protobuf_file(io.BytesIO(data))
                    else:
                        with open(path, "wb") as f:
                            f.write(data)
                        y = g.IR.load_protobuf(path)
                except Exception as e:  # noqa
                    exc = e
                if want is None:
                    if exc is not None or not y.deep_eq(ir):
                        out.append(("C17/scale:valid-file-rejected",
                                    "%s: %r" % (where, exc)))
                elif exc is None:
                    out.append(("C17/scale:faulty-header-accepted", where))
                elif want is ValueError and not isinstance(exc, ValueError):
                    out.append(("C17/scale:header-fault-wrong-exception:%s"
                                % type(exc).__name__, where))
    finally:
        if os.path.exists(path):
            os.unlink(path)
    return steps


# ------------------------------------------------------------------ clones
def script_clone(g, n, prop, out):
    """An IR obtained by copy.deepcopy / pickle of a built IR (lookups done
    before the copy or not) is an IR like any other: every lookup structure
    of the copy must follow the copy's own tree, before and after edits to
    it, and the original must not notice."""
    import copy
    import pickle

    from .. import ircases, irgen, oracle

    spec = ircases.large_cases_for(n)[1]
    steps = 0
    for pre in ("cold", "warm"):
        for how in ("deepcopy", "pickle", "save-load"):
            where = "clone n=%d %s %s" % (n, pre, how)
            try:
                x, _ = irgen.build_ir(spec, "topdown")
                if pre == "warm":
                    for sig, d in oracle.check_ir(
                            g, x, props={"C12": ("C05", "C06", "C12")}.get(
                                prop, (prop,))):
                        out.append((sig.replace("/clone:", "/built-large:"),
                                    "%s: %s" % (where, d)))
                before = irgen.snapshot(x)
                try:
                    if how == "save-load":
                        buf = io.BytesIO()
                        x.save_protobuf_file(buf)
                        y = g.IR.load_protobuf_file(
                            io.BytesIO(buf.getvalue()))
                    else:
                        y = (copy.deepcopy(x) if how == "deepcopy"
                             else pickle.loads(pickle.dumps(x)))
                except Exception:  # noqa  (cloning not supported: no claim)
                    if how == "save-load":
                        raise
                    continue
                steps += 1
                parts = {"C12": ("C05", "C06", "C12")}.get(prop, (prop,))
                for sig, d in oracle.check_ir(g, y, others=[x], props=parts):
                    out.append((sig, "%s, right after the copy: %s"
                                % (where, d)))
                if not (x.deep_eq(y) and y.deep_eq(x)):
                    out.append(("C18/clone:copy-not-deep_eq", where))
                if irgen.diff(irgen.snapshot(y), before):
                    out.append(("C04/clone:copy-differs-from-original",
                                "%s: %s" % (where, irgen.diff(
                                    irgen.snapshot(y), before))))
                # ---- edit the copy through the public API
                t = oracle.tree(y)
                for b in t["intervals"]:
                    if b.address is not None:
                        b.address += 0x100
                big = max(t["intervals"], key=lambda b: len(b.blocks))
                ks_ = sorted(big.blocks, key=lambda k: k.uuid.int)
                for k in ks_[::2]:
                    k.offset += 1
                big.blocks.discard(ks_[1])
                big.blocks.add(ks_[1])
                newk = g.CodeBlock(offset=3, size=2, uuid=U(991000))
                big.blocks.add(newk)
                big.symbolic_expressions[5] = g.SymAddrConst(
                    1, t["symbols"][0])
                big.contents[0:1] = b"\xee"
                m = t["modules"][0]
                ys = sorted(m.symbols, key=lambda q: q.uuid.int)
                ys[0].name = ys[1].name
                ys[2].referent = newk
                ys[3].module = None
                s0 = t["sections"][-1]
                s0.module = None
                s0.module = m
                e = sorted(y.cfg, key=lambda e_: (e_.source.uuid.int,
                                                  e_.target.uuid.int,
                                                  str(e_.label)))[0]
                y.cfg.discard(e)
                y.cfg.add(g.Edge(newk, e.target))
                steps += 1
                for sig, d in oracle.check_ir(g, y, others=[x], props=parts):
                    out.append((sig, "%s, after edits to the copy: %s"
                                % (where, d)))
                for sig, d in oracle.check_ir(g, x, others=[y], props=parts):
                    out.append((sig.replace("/clone:", "/clone:original-"),
                                "%s, original after edits to the copy: %s"
                                % (where, d)))
                d = irgen.diff(irgen.snapshot(x), before)
                if d:
                    out.append(("C04/clone:edit-of-copy-changes-original",
                                "%s: %s" % (where, d)))
                    if "contents" in d:
                        out.append(("C19/clone:copy-shares-stored-bytes",
                                    "%s: %s" % (where, d)))
                if x.deep_eq(y) or y.deep_eq(x):
                    out.append(("C18/clone:true-for-different", where))
            except Exception as e:  # noqa
                import traceback

                out.append(("%s/clone:raises:%s" % (prop, type(e).__name__),
                            "%s: %s" % (where, traceback.format_exc()[-400:])))
    return steps


def script_structures(g, n, prop, out):
    """every IR of the shared structure space (all containment shapes up to 9
    nodes x 4 decorations, the deviation, large and coincidence cases), as
    built through the API and as loaded from its file, under the whole-IR
    oracle: chunk n of 16"""
    from .. import ircases, irgen, oracle

    steps = 0
    cases = ircases.all_cases("quick")
    for label, spec in cases[n::16]:
        try:
            x, _ = irgen.build_ir(spec, "topdown")
            buf = io.BytesIO()
            x.save_protobuf_file(buf)
            y = g.IR.load_protobuf_file(io.BytesIO(buf.getvalue()))
        except Exception:  # noqa  (judged by C01 / C02)
            continue
        for how, ir, other in (("built", x, y), ("loaded", y, x)):
            steps += 1
            for sig, d in oracle.check_ir(g, ir, props=(prop,),
                                          others=[other]):
                out.append((sig.replace("/clone:", "/structure-%s:" % how),
                            "%s (%s): %s" % (label, how, d)))
    return steps


# ------------------------------------------------------------------ driver
def plan(prop, tier):
    """(script name, [n ...]) for the property"""
    sizes = SIZES
    if tier != "quick":
        sizes = SIZES + [511, 512, 513, 1023, 1024, 1025]
    P = {
        "C03": [("sets:" + r, sizes) for r in RELS] + [("modlist", DENSE)],
        "C04": [("sets:" + r, sizes) for r in RELS] + [("modlist", DENSE)],
        "C16": [("sets:" + r, sizes) for r in RELS] + [
            ("modlist", DENSE + [65]), ("symexprs", sizes)],
        "C05": [("blocks", sizes)],
        "C12": [("blocks", sizes)],
        "C06": [("intervals", sizes)],
        "C13": [("symexprs", sizes), ("intervals", DENSE + [64, 65])],
        "C10": [("symbols", sizes)],
        "C11": [("cfg", sizes)],
        "C18": [("deep_eq", [9, 17, 33, 70])],
        "C19": [("bytes", [16]), ("addrspace", [0, 1, 2, 3])],
        "C17": [("bigfile", [1, 2])],
    }
    out = P.get(prop, [])
    if prop in ("C03", "C04", "C05", "C06", "C10", "C11", "C12", "C13", "C18",
                "C19"):
        out = out + [("clone", [9, 17])]
    if prop in ("C03", "C04", "C05", "C06", "C10", "C11", "C13", "C19"):
        out = out + [("structures", list(range(16)))]
    return out


def run_script(name, n, prop):
    import gtirb as g

    out = []
    _SINK[0], _SINK[1] = out, 0
    if name.startswith("sets:"):
        steps = script_sets(g, name[5:], n, out)
    elif name == "modlist":
        steps = script_modlist(g, n, out)
    elif name == "blocks":
        steps = script_blocks(g, n, prop, out)
    elif name == "intervals":
        steps = script_intervals(g, n, out)
    elif name == "symexprs":
        steps = script_symexprs(g, n, out)
    elif name == "symbols":
        steps = script_symbols(g, n, out)
    elif name == "cfg":
        steps = script_cfg(g, n, out)
    elif name == "deep_eq":
        steps = script_deep_eq(g, n, out)
    elif name == "bytes":
        steps = script_bytes(g, n, out)
    elif name == "bigfile":
        steps = script_bigfile(g, n, out)
    elif name == "structures":
        steps = script_structures(g, n, prop, out)
    elif name == "addrspace":
        steps = script_addrspace(g, n, out)
    elif name == "clone":
        steps = script_clone(g, n, prop, out)
        if prop == "C12":
            # schedule independence: C05's findings under C12's name
            out += [(s_.replace("C05/", "C12/"), d) for s_, d in out
                    if s_.startswith("C05/")]
    else:
        raise ValueError(name)
    return steps, out


def work(task):
    name, n, prop = task
    try:
        with common.time_limit(240):
            steps, out = run_script(name, n, prop)
    except common.Hang as e:
        steps, out = 0, [("%s/scale:hang" % prop, "%s n=%d: %s"
                          % (name, n, e))]
    except Exception as e:  # noqa  (a legal call raised inside a script)
        import traceback

        steps, out = 0, [("%s/scale:script-raises:%s"
                          % (prop, type(e).__name__),
                          "%s n=%d: %s" % (name, n,
                                           traceback.format_exc()[-500:]))]
    return name, n, steps, out


def run(ctx):
    tasks = [(name, n, ctx.prop) for name, ns in plan(ctx.prop, ctx.tier)
             for n in ns]
    if not tasks:
        return
    tasks.sort(key=lambda t: -t[1])
    steps = 0
    found = {}
    for name, n, st, out in common.pmap(work, tasks, chunksize=1):
        steps += st
        for sig, detail in out:
            if not sig.startswith(ctx.prop + "/"):
                continue
            old = found.get(sig)
            if old is None or n < old[1]:
                found[sig] = (name, n, detail)
    for sig, (name, n, detail) in sorted(found.items()):
        ctx.violation(sig, {"scenario": "scale", "script": name, "n": n,
                            "detail": detail})
    ctx.extra_cov["scale_sweep"] = {
        "scripts": sorted({t[0] for t in tasks}),
        "sizes": sorted({t[1] for t in tasks}),
        "script_runs": len(tasks),
        "checked_steps": steps,
        "rule": "each script is run for every listed size n on fresh "
        "objects; inside, every operand size k in {0,1,2,n/8,n/8+1,n/2,n-1,n} "
        "and every operation of the script's menu; oracles are fresh scans / "
        "built-in shadows",
    }


def replay(doc):
    steps, out = run_script(doc["script"], doc["n"], doc["property"])
    hit = False
    for sig, detail in out:
        if sig == doc["signature"]:
            hit = True
            print(sig, "--", detail[:500])
    print("script %s n=%d: %s" % (doc["script"], doc["n"],
                                  "reproduced" if hit else "NOT reproduced"))
    return 1 if hit else 0
