"""C11 - the CFG is a set of (source, target, label) edges with consistent
adjacency views: explicit-state exploration of the real CFG object against a
Python set, to fix-point over a small edge universe."""

import itertools
import operator
import uuid as uuidlib

from .. import explore


def U(k):
    return uuidlib.UUID(int=0x4000 + k)


# universe entries: (src, tgt, label-key)
_BASE_Q = [
    ("P2", "P2", "L1"), ("K1", "P1", None), ("K1", "P1", "L0"),
    ("K1", "P1", "L1"), ("P1", "K1", None),
]
# P1t is a second ProxyBlock OBJECT carrying the UUID of P1 (unattached):
# nodes are compared by identity, so K1->P1t is another edge than K1->P1
_TWIN = [("K1", "P1t", None)]
# quick: the twin takes the place of the third parallel K1->P1 edge, so that
# the fix-point stays reachable inside the quick budget
UNIVERSE_Q = [("P2", "P2", "L1"), ("K1", "P1", None), ("K1", "P1", "L0"),
              ("P1", "K1", None)] + _TWIN
UNIVERSE_T = _BASE_Q + [
    ("K1", "K1", None), ("P1", "P2", "L0"), ("K1", "P1", "L2"),
] + _TWIN
# pairs used as two-element operands (parallel edges, opposite directions,
# attached + detached)
_PAIRS = [(1, 2), (1, 3), (2, 3), (1, 4), (0, 1)]
PAIRS_Q = [(1, 2), (1, 3), (1, 4), (0, 1), (2, 4)]
PAIRS_T = _PAIRS + [(2, 7), (3, 7), (5, 6), (4, 6), (0, 5), (1, 8)]


class World:
    pass


class CfgScenario(explore.Scenario):
    name = "cfg"

    def __init__(self, universe, pairs):
        self.universe = universe
        self.pairs = pairs

    def initial_states(self):
        return ["empty", "loaded3"]

    def labels(self, g):
        T = g.Edge.Type
        return {
            None: None,
            "L0": g.Edge.Label(T.Branch, False, False),
            "L1": g.Edge.Label(T.Call, True, True),
            "L2": g.Edge.Label(T.Branch, False, True),
            "L3": g.Edge.Label(T.Sysret, True, False),
        }

    def build(self, init):
        import gtirb as g
        import io

        w = World()
        w.g = g
        ir = g.IR(uuid=U(0))
        m = g.Module(name="m", uuid=U(1), ir=ir)
        s = g.Section(name="s", uuid=U(2), module=m)
        b = g.ByteInterval(size=4, address=0, uuid=U(3), section=s)
        k1 = g.CodeBlock(size=1, uuid=U(4), byte_interval=b)
        p1 = g.ProxyBlock(uuid=U(5), module=m)
        p2 = g.ProxyBlock(uuid=U(6))
        w.nodes = {"K1": k1, "P1": p1, "P2": p2,
                   "P1t": g.ProxyBlock(uuid=U(5))}
        w.ir = ir
        w.model = set()
        if init == "loaded3":
            for i in [self.universe.index(e_) for e_ in (
                    ("K1", "P1", None), ("K1", "P1", "L0"), ("P1", "K1", None))]:
                ir.cfg.add(self.edge(w, i))
                w.model.add(i)
            buf = io.BytesIO()
            ir.save_protobuf_file(buf)
            ir = g.IR.load_protobuf_file(io.BytesIO(buf.getvalue()))
            w.ir = ir
            w.nodes["K1"] = ir.get_by_uuid(U(4))
            w.nodes["P1"] = ir.get_by_uuid(U(5))
        w.objs = {"cfg": w.ir.cfg}
        w.objs.update(w.nodes)
        return w

    def edge(self, w, i, fresh=False):
        """the world's canonical Edge object for universe entry i (the same
        object every time), or a fresh equal one"""
        cache = w.__dict__.setdefault("edge_objs", {})
        key = (i, id(w.nodes[self.universe[i][0]]), id(w.nodes[self.universe[i][1]]))
        if fresh or key not in cache:
            s, t, l = self.universe[i]
            e = w.g.Edge(w.nodes[s], w.nodes[t], self.labels(w.g)[l])
            if fresh:
                return e
            if i % 2 == 0 and e.label is not None:
                # built the way `edge._replace(label=...)` / `Edge._make`
                # build edges: a label object of its own, constructor bypassed
                lab = e.label
                e = w.g.Edge._make((e.source, e.target,
                                    type(lab)(*tuple(lab))))
            cache[key] = e
        return cache[key]

    def index_of(self, w, e):
        lab = self.labels(w.g)
        for i, (s, t, l) in enumerate(self.universe):
            if e.source is w.nodes[s] and e.target is w.nodes[t] \
                    and e.label == lab[l] and (e.label is None) == (l is None):
                return i
        return "?%r" % (e,)

    def subsets(self):
        n = len(self.universe)
        out = [[]] + [[i] for i in range(n)]
        out += [list(p) for p in self.pairs]
        out.append(list(range(n)))
        return out

    def ops(self, w):
        n = len(self.universe)
        out = []
        for i in range(n):
            for m in ("add", "discard", "remove", "discard_eq", "contains",
                      "contains_eq", "add_eq"):
                out.append([m, i])
            out.append(["update", [i, i]])
        out.append(["pop"])
        out.append(["clear"])
        for ss in self.subsets():
            for m in ("update", "ior", "iand", "isub", "ixor"):
                out.append([m, ss])
        # one-shot iterators as operands of the in-place operators, listing
        # the edges in both orders (the abc mixins accept any iterable; a
        # stricter TypeError that changes nothing is accepted too)
        for ss in self.subsets():
            if len(ss) >= 2:
                for m in ("ior_it", "iand_it", "isub_it", "ixor_it"):
                    out.append([m, ss])
                    out.append([m, list(reversed(ss))])
        out.append(["ixor_self"])
        out.append(["isub_self"])
        for k in ("ior_self", "iand_self", "update_self", "update_gen"):
            out.append([k])
        # another IR / CFG constructed FROM this CFG object is a copy:
        # editing it must not change this one (model stays as it is)
        out.append(["ctor_from_cfg"])
        # observations are operations too: a lookup may plant hidden state
        # (a cached view, a hint) that only a later edit + lookup exposes
        for nm in sorted(w.nodes):
            out.append(["adjacency", nm])
        out.append(["iterate"])
        return out

    def prefix_ok(self, op):
        return op[0] != "pop"

    def apply(self, w, op):
        cfg = w.ir.cfg
        M = w.model
        v = []
        kind = op[0]
        want_exc = None
        want_ret = "none"
        new = set(M)
        if kind == "add":
            new.add(op[1])
        elif kind in ("discard", "discard_eq"):
            new.discard(op[1])
        elif kind in ("contains", "contains_eq"):
            want_ret = "bool:%s" % (op[1] in M)
        elif kind == "add_eq":
            new.add(op[1])
        elif kind in ("adjacency", "iterate"):
            want_ret = "any"
        elif kind == "remove":
            if op[1] not in M:
                want_exc = "KeyError"
            new.discard(op[1])
        elif kind == "pop":
            if not M:
                want_exc = "KeyError"
            want_ret = "member"
        elif kind == "clear":
            new = set()
        elif kind == "update":
            new |= set(op[1])
        elif kind == "ior":
            new |= set(op[1])
            want_ret = "self"
        elif kind == "iand":
            new &= set(op[1])
            want_ret = "self"
        elif kind == "isub":
            new -= set(op[1])
            want_ret = "self"
        elif kind == "ixor":
            new ^= set(op[1])
            want_ret = "self"
        elif kind in ("ior_it", "iand_it", "isub_it", "ixor_it"):
            o_ = set(op[1])
            new = {"ior_it": new | o_, "iand_it": new & o_,
                   "isub_it": new - o_, "ixor_it": new ^ o_}[kind]
            want_ret = "self-or-typeerror"
        elif kind in ("ixor_self", "isub_self"):
            new = set()
            want_ret = "self"
        elif kind in ("ior_self", "iand_self"):
            want_ret = "self"
        elif kind == "ctor_from_cfg":
            want_ret = "any"
        exc = None
        res = None
        try:
            if kind in ("add", "discard", "remove"):
                res = getattr(cfg, kind)(self.edge(w, op[1]))
            elif kind == "discard_eq":
                res = cfg.discard(self.edge(w, op[1], fresh=True))
            elif kind == "contains":
                res = self.edge(w, op[1]) in cfg
            elif kind == "contains_eq":
                res = self.edge(w, op[1], fresh=True) in cfg
            elif kind == "add_eq":
                res = cfg.add(self.edge(w, op[1], fresh=True))
            elif kind == "adjacency":
                node = w.nodes[op[1]]
                res = (len(list(cfg.out_edges(node))), len(list(cfg.in_edges(node))),
                       len(list(node.outgoing_edges)), len(list(node.incoming_edges)))
            elif kind == "iterate":
                res = (len(cfg), len(list(cfg)))
            elif kind == "pop":
                res = cfg.pop()
            elif kind == "clear":
                res = cfg.clear()
            elif kind == "update":
                res = cfg.update([self.edge(w, i) for i in op[1]])
            elif kind in ("ior", "iand", "isub", "ixor"):
                # an insertion-ordered Set (dict keys view), so that the order
                # in which the operator visits the operand is under our
                # control and replays are deterministic
                other = dict.fromkeys(self.edge(w, i) for i in op[1]).keys()
                fn = {"ior": operator.ior, "iand": operator.iand,
                      "isub": operator.isub, "ixor": operator.ixor}[kind]
                res = fn(cfg, other)
            elif kind.endswith("_it"):
                fn = {"ior_it": operator.ior, "iand_it": operator.iand,
                      "isub_it": operator.isub, "ixor_it": operator.ixor}[kind]
                res = fn(cfg, iter([self.edge(w, i) for i in op[1]]))
            elif kind == "ixor_self":
                res = operator.ixor(cfg, cfg)
            elif kind == "isub_self":
                res = operator.isub(cfg, cfg)
            elif kind == "ctor_from_cfg":
                g_ = w.g
                for other in (g_.IR(cfg=cfg).cfg, g_.CFG(cfg)):
                    if len(other) != len(M):
                        v.append(("C11/constructed-copy-differs", ""))
                    other.add(g_.Edge(g_.ProxyBlock(), g_.ProxyBlock()))
                    for e_ in list(other)[:2]:
                        other.discard(e_)
                    other.clear()
            elif kind == "ior_self":
                res = operator.ior(cfg, cfg)
            elif kind == "iand_self":
                res = operator.iand(cfg, cfg)
            elif kind == "update_self":
                res = cfg.update(cfg)
            elif kind == "update_gen":
                # a one-shot iterator over the CFG's own edges
                res = cfg.update(e for e in cfg)
        except Exception as e:  # noqa
            exc = type(e).__name__
        if want_ret == "self-or-typeerror":
            if exc == "TypeError":
                # refused like the built-in set would: nothing may change
                # (check() compares the CFG with the unchanged model)
                return v
            want_ret = "self"
        if exc != want_exc:
            v.append(("C11/exception:%s:expected=%s:got=%s" % (kind, want_exc, exc),
                      "op %s on %s" % (op, sorted(M))))
            if exc is not None:
                return v
        if exc is None:
            if want_ret == "any":
                pass
            elif want_ret == "none" and res is not None:
                v.append(("C11/return:%s" % kind, repr(res)))
            elif want_ret.startswith("bool:"):
                if str(res) != want_ret[5:]:
                    v.append(("C11/membership-op", "%s -> %r" % (op, res)))
            elif want_ret == "self" and res is not cfg:
                v.append(("C11/return-not-self:%s" % kind, repr(type(res))))
            elif want_ret == "member":
                i = self.index_of(w, res)
                if i not in M:
                    v.append(("C11/pop-returned-non-member", repr(res)))
                else:
                    new.discard(i)
            w.model = new
        return v

    def check(self, w):
        v = []
        cfg = w.ir.cfg
        M = w.model
        n = len(self.universe)
        got = [self.index_of(w, e) for e in cfg]
        if len(got) != len(set(got)):
            v.append(("C11/iteration-duplicates", "%s" % (got,)))
        if set(got) != M:
            v.append(("C11/iteration-contents",
                      "iter %s model %s" % (sorted(map(str, got)), sorted(M))))
        if len(cfg) != len(M):
            v.append(("C11/len", "%d vs %d" % (len(cfg), len(M))))
        for i in range(n):
            if (self.edge(w, i) in cfg) != (i in M):
                v.append(("C11/membership", "edge %d %s; model %s"
                          % (i, self.universe[i], sorted(M))))
        for nm, node in w.nodes.items():
            want_out = sorted(i for i in M if self.universe[i][0] == nm)
            want_in = sorted(i for i in M if self.universe[i][1] == nm)
            go = sorted(map(str, (self.index_of(w, e) for e in cfg.out_edges(node))))
            gi = sorted(map(str, (self.index_of(w, e) for e in cfg.in_edges(node))))
            if go != sorted(map(str, want_out)):
                v.append(("C11/out_edges", "%s: %s want %s" % (nm, go, want_out)))
            if gi != sorted(map(str, want_in)):
                v.append(("C11/in_edges", "%s: %s want %s" % (nm, gi, want_in)))
            attached = node.ir is not None
            bo = sorted(map(str, (self.index_of(w, e) for e in node.outgoing_edges)))
            bi = sorted(map(str, (self.index_of(w, e) for e in node.incoming_edges)))
            if attached:
                if bo != sorted(map(str, want_out)):
                    v.append(("C11/outgoing_edges", "%s: %s want %s"
                              % (nm, bo, want_out)))
                if bi != sorted(map(str, want_in)):
                    v.append(("C11/incoming_edges", "%s: %s want %s"
                              % (nm, bi, want_in)))
            elif bo or bi:
                v.append(("C11/detached-node-has-edges", nm))
        if cfg is not w.ir.cfg:
            v.append(("C11/cfg-object-replaced", ""))
        return v

    def check_state(self, w):
        v = []
        cfg = w.ir.cfg
        M = w.model
        n = len(self.universe)
        # non-mutating algebra against the built-in (a few operands)
        for ss in ([], [0], [1, 2], [3, 4]):
            other = {self.edge(w, i) for i in ss if i < n}
            oi = {i for i in ss if i < n}
            for sym, fn in (("or", operator.or_), ("and", operator.and_),
                            ("sub", operator.sub), ("xor", operator.xor)):
                try:
                    r = {self.index_of(w, e) for e in fn(cfg, other)}
                    if r != fn(M, oi):
                        v.append(("C11/binary-%s" % sym,
                                  "%s vs %s" % (r, fn(M, oi))))
                except Exception as e:  # noqa
                    v.append(("C11/binary-%s-raises:%s"
                              % (sym, type(e).__name__), ""))
            for sym, fn in (("eq", operator.eq), ("le", operator.le),
                            ("ge", operator.ge), ("lt", operator.lt)):
                if fn(cfg, other) != fn(M, oi):
                    v.append(("C11/compare-%s" % sym, "%s %s" % (sorted(M), ss)))
            if cfg.isdisjoint(other) != M.isdisjoint(oi):
                v.append(("C11/isdisjoint", ""))
        # constructor from an iterable
        c2 = w.g.CFG([self.edge(w, i) for i in sorted(M)] * 2)
        if {self.index_of(w, e) for e in c2} != M or len(c2) != len(M):
            v.append(("C11/constructor-from-iterable", ""))
        if cfg is not w.ir.cfg:
            v.append(("C11/cfg-object-replaced", ""))
        return v

    def fp_extra(self, w):
        return ""


def run(ctx):
    if ctx.tier == "quick":
        sc = CfgScenario(UNIVERSE_Q, PAIRS_Q)
    else:
        sc = CfgScenario(UNIVERSE_T, PAIRS_T)
    cov = explore.explore(ctx, sc)
    cov["edge_universe"] = [list(map(str, e)) for e in sc.universe]
    cov["bound"] = "fix-point over all subsets of the edge universe and all " \
                   "reachable multigraph key layouts"
    return ctx.finish(
        "model_checking", cov,
        ["model: Python set of universe indices; nodes compared by identity, "
         "labels by value, None distinct from every label",
         "pop() checked from every state, never used as a prefix"])


def replay(doc):
    if doc.get("tier", "quick") == "quick":
        sc = CfgScenario(UNIVERSE_Q, PAIRS_Q)
    else:
        sc = CfgScenario(UNIVERSE_T, PAIRS_T)
    w = sc.build(doc["init"])
    for op in doc["history"]:
        sc.apply(w, op)
    v = []
    if doc.get("op") is not None:
        v += sc.apply(w, doc["op"])
    v += sc.check(w)
    for s, d in v:
        print(s, "--", d)
    hit = any(s == doc["signature"] for s, _ in v)
    print("init=%s history=%s op=%s: %s" % (
        doc["init"], doc["history"], doc.get("op"),
        "reproduced" if hit else "NOT reproduced"))
    return 1 if hit else 0
