"""C02 - writer and reader each agree with the protobuf schema, field by
field, under each protobuf runtime backend.

Writer: for every IR specification of the shared case space, the bytes of
save are the 8-byte header followed by a message whose canonical plain form
equals the one derived from the specification alone.
Reader: messages are built directly with the generated descriptor classes
(never by gtirb's writer), with reader-only variations (children in another
order, duplicated flags, has_address=false with a stale address, vertex list
absent / arbitrary), and the loaded IR must equal the specification.

The whole check runs in two child processes, one per
PROTOCOL_BUFFERS_PYTHON_IMPLEMENTATION (upb, python)."""

import io
import json
import os
import subprocess
import sys

from .. import common, ircases, irgen

TWEAKS = [None, {"reverse_children": True}, {"duplicate_flags": True},
          {"stale_address": True}, {"vertices": "none"}, {"vertices": "junk"}]


def edit_after_save(x, spec):
    """Edits every node of the already-saved IR x through the public API and
    returns the specification of the edited IR: the next save must describe
    the current state, not anything remembered from the previous save."""
    import copy

    spec2 = copy.deepcopy(spec)
    for kind, node, _ in irgen.walk(spec2):
        o = x if kind == "ir" else x.get_by_uuid(node["uuid"])
        if kind == "ir":
            o.cfg.clear()
            node["cfg"] = []
            o.aux_data.clear()
            node["aux"] = {}
        elif kind == "module":
            o.name = node["name"] = node["name"] + "~"
            o.entry_point = None
            node["entry"] = None
            o.aux_data.clear()
            node["aux"] = {}
            o.rebase_delta = node["rebase_delta"] = (
                node["rebase_delta"] - 1 if node["rebase_delta"] > 0
                else node["rebase_delta"] + 1)
        elif kind == "symbol":
            o.name = node["name"] = node["name"] + "~"
            o.at_end = node["at_end"] = not node["at_end"]
        elif kind == "section":
            o.name = node["name"] = node["name"] + "~"
            o.flags.clear()
            node["flags"] = []
        elif kind == "interval":
            o.address = node["address"] = None
            o.contents = bytearray()
            node["contents"] = b""
            o.symbolic_expressions.clear()
            node["symexprs"] = {}
        elif kind == "block":
            # stay inside uint64
            o.size = node["size"] = (node["size"] + 1 if node["size"] < 8
                                     else node["size"] - 1)
    return spec2


def check_spec(label, spec):
    import gtirb as g
    from gtirb.proto import IR_pb2
    from gtirb.version import PROTOBUF_VERSION as PV

    out = []
    from .c01 import earlier_tables_with_unknown_types

    earlier_tables_with_unknown_types()
    # ---------------- writer direction
    want_plain = irgen.spec_to_plain(spec, PV)
    for as_nodes in (False, True):
        try:
            x, _ = irgen.build_ir(spec, "topdown", aux_as_nodes=as_nodes)
            buf = io.BytesIO()
            x.save_protobuf_file(buf)
            data = buf.getvalue()
        except irgen.EnumMissing as e:
            out.append(("C02/python-enum-lacks-schema-constant", str(e)))
            break
        except Exception as e:  # noqa
            import traceback

            out.append(("C02/writer-raises:%s" % type(e).__name__,
                        "%s: %s" % (label, traceback.format_exc()[-300:])))
            break
        if data[:8] != b"GTIRB\x00\x00" + bytes([PV]):
            out.append(("C02/writer-header", "%s: %r" % (label, data[:8])))
        m = IR_pb2.IR()
        try:
            m.ParseFromString(data[8:])
        except Exception as e:  # noqa
            out.append(("C02/writer-output-unparsable", label))
            continue
        d = irgen.diff(irgen.msg_to_plain(m), want_plain)
        if d:
            out.append(("C02/writer-field:%s" % ircases.path_class(d),
                        "%s: written vs schema-expected %s" % (label, d)))
            continue
        if as_nodes:
            continue
        # a second save after edits to every node
        try:
            spec2 = edit_after_save(x, spec)
            buf = io.BytesIO()
            x.save_protobuf_file(buf)
            m2 = IR_pb2.IR()
            m2.ParseFromString(buf.getvalue()[8:])
            d = irgen.diff(irgen.msg_to_plain(m2),
                           irgen.spec_to_plain(spec2, PV))
        except Exception as e:  # noqa
            import traceback

            out.append(("C02/second-save-raises:%s" % type(e).__name__,
                        "%s: %s" % (label, traceback.format_exc()[-300:])))
            continue
        if d:
            out.append(("C02/second-save-writer-field:%s"
                        % ircases.path_class(d),
                        "%s: saved, edited, saved again: written vs "
                        "schema-expected %s" % (label, d)))
            continue
        # CFG nodes replaced between two saves (the old ones freed, so that
        # new objects may take their addresses): the vertex list must name
        # exactly the current CFG nodes
        if len(x.modules) and (label == "base" or label.endswith("0/v0")
                               or label.startswith("large/")):
            try:
                import gc

                m0 = x.modules[0]
                old = [g.ProxyBlock(module=m0) for _ in range(64)]
                x.save_protobuf_file(io.BytesIO())
                for p_ in old:
                    m0.proxies.discard(p_)
                del old, p_
                gc.collect()
                new = [g.ProxyBlock(module=m0) for _ in range(64)]
                buf = io.BytesIO()
                x.save_protobuf_file(buf)
                m3 = IR_pb2.IR()
                m3.ParseFromString(buf.getvalue()[8:])
                got = sorted(bytes(v_) for v_ in m3.cfg.vertices)
                want_v = sorted(n_.uuid.bytes for n_ in x.cfg_nodes)
                if got != want_v:
                    out.append(("C02/writer-field:.cfg.vertices:after-"
                                "replacing-cfg-nodes",
                                "%s: %d vertices written, %d CFG nodes; %d "
                                "stale" % (label, len(got), len(want_v),
                                           len(set(got) - set(want_v)))))
                del new
            except Exception as e:  # noqa
                out.append(("C02/third-save-raises:%s" % type(e).__name__,
                            "%s: %r" % (label, e)))
    # ---------------- reader direction
    want_snap = irgen.expected_snapshot(spec, PV)
    for tw in TWEAKS:
        tname = "plain" if tw is None else ",".join(sorted(tw))
        try:
            msg = irgen.spec_to_message(spec, PV, tw)
            data = irgen.file_bytes(msg, PV)
        except Exception as e:  # noqa
            out.append(("C02/harness-message-build:%s" % type(e).__name__,
                        "%s %s %r" % (label, tname, e)))
            continue
        try:
            y = g.IR.load_protobuf_file(io.BytesIO(data))
        except Exception as e:  # noqa
            import traceback

            out.append(("C02/reader-rejects-valid-message:%s:%s"
                        % (tname, type(e).__name__),
                        "%s: %s" % (label, traceback.format_exc()[-300:])))
            continue
        try:
            d = irgen.diff(irgen.snapshot(y), want_snap)
        except Exception as e:  # noqa
            out.append(("C02/reader-result-unreadable:%s" % type(e).__name__,
                        "%s %s" % (label, tname)))
            continue
        if d:
            out.append(("C02/reader-field:%s:%s" % (tname, ircases.path_class(d)),
                        "%s: loaded vs message %s" % (label, d)))
            continue
        if tw is not None:
            continue
        # ---------------- writer direction on a LOADED IR: (a) nothing read
        # since the load, (b) every table read (the snapshot above did) and
        # then edited in place through the object .data returned
        try:
            y0 = g.IR.load_protobuf_file(io.BytesIO(data))
            for stage, obj, sp in (("unread", y0, spec),
                                   ("read-then-edited-in-place", y, None)):
                if sp is None:
                    sp = edit_tables_in_place(obj, spec)
                buf = io.BytesIO()
                obj.save_protobuf_file(buf)
                m4 = IR_pb2.IR()
                m4.ParseFromString(buf.getvalue()[8:])
                d = irgen.diff(irgen.msg_to_plain(m4),
                               irgen.spec_to_plain(sp, PV))
                if d:
                    out.append(("C02/writer-field-of-loaded-ir:%s:%s"
                                % (stage, ircases.path_class(d)),
                                "%s: loaded, %s, saved: written vs schema-"
                                "expected %s" % (label, stage, d)))
        except Exception as e:  # noqa
            import traceback

            out.append(("C02/save-of-loaded-ir-raises:%s" % type(e).__name__,
                        "%s: %s" % (label, traceback.format_exc()[-300:])))
    return out


def edit_tables_in_place(y, spec):
    """Shrinks every non-empty list / simple-keyed dict / simple set table of
    the loaded IR y through the object its .data returns (no assignment to
    .data) and returns the specification of the result."""
    import copy

    spec2 = copy.deepcopy(spec)

    def simple(v):
        return all(isinstance(k, (str, int)) and not isinstance(k, bool)
                   for k in v)

    for kind, node, _ in irgen.walk(spec2):
        if kind not in ("ir", "module"):
            continue
        o = y if kind == "ir" else y.get_by_uuid(node["uuid"])
        for name, (tname, val) in list(node["aux"].items()):
            if name not in o.aux_data:
                continue
            try:
                live = o.aux_data[name].data
            except Exception:  # noqa  (unknown type: stays raw)
                continue
            if isinstance(val, list) and val and isinstance(live, list):
                del live[-1]
                node["aux"][name] = (tname, val[:-1])
            elif isinstance(val, dict) and val and simple(val) \
                    and isinstance(live, dict):
                k = min(val, key=repr)
                del live[k]
                node["aux"][name] = (tname, {a: b for a, b in val.items()
                                             if a != k})
            elif isinstance(val, (set, frozenset)) and val and simple(val) \
                    and isinstance(live, set):
                k = min(val, key=repr)
                live.discard(k)
                node["aux"][name] = (tname, type(val)(a for a in val
                                                      if a != k))
    return spec2


def work(task):
    tier, lo, hi, _ = task
    cases = ircases.reader_cases(tier)
    bad = []
    n = 0
    for label, spec in cases[lo:hi]:
        n += 2 + len(TWEAKS)
        for sig, detail in check_spec(label, spec):
            if len(bad) < 30:
                bad.append((sig, detail, label))
    return n, bad


def child_main(argv):
    """python -m mc.checks.c02 <tier> <seed> <outfile>"""
    tier, seed, outfile = argv[0], int(argv[1]), argv[2]
    from .. import build
    from ..run import stage

    stage()
    from google.protobuf.internal import api_implementation

    backend = api_implementation.Type()
    import random

    cases = ircases.reader_cases(tier)
    tasks = [(tier, lo, hi, None) for lo, hi in ircases.chunks(len(cases), 20)]
    random.Random(seed).shuffle(tasks)
    n = 0
    bad = []
    for k, b in common.pmap(work, tasks, chunksize=1):
        n += k
        bad += b
    common.close_pool()
    with open(outfile, "w") as f:
        json.dump({"backend": backend, "cases": len(cases), "evaluations": n,
                   "bad": bad[:300]}, f)
    return 0


def run(ctx):
    results = []
    tmpdir = os.path.join(common.VERIF, ".stage", "c02_%d" % os.getpid())
    os.makedirs(tmpdir, exist_ok=True)
    try:
        for backend in ("upb", "python"):
            out = os.path.join(tmpdir, backend + ".json")
            env = dict(os.environ)
            env["PROTOCOL_BUFFERS_PYTHON_IMPLEMENTATION"] = backend
            p = subprocess.run(
                [sys.executable, "-m", "mc.checks.c02", ctx.tier,
                 str(ctx.seed), out], cwd=common.VERIF, env=env,
                capture_output=True, text=True)
            if p.returncode != 0 or not os.path.exists(out):
                ctx.notes.append("child for backend %s failed: %s"
                                 % (backend, p.stderr[-500:]))
                if p.returncode == 2:
                    common.die_infra("C02 child (%s): %s"
                                     % (backend, p.stderr[-800:]))
                ctx.violation("C02/child-crashed:%s" % backend,
                              {"scenario": "ircases", "detail": p.stderr[-800:]})
                continue
            with open(out) as f:
                results.append(json.load(f))
    finally:
        import shutil

        shutil.rmtree(tmpdir, ignore_errors=True)
    best = {}
    for r in results:
        for sig, detail, label in r["bad"]:
            sig2 = sig
            old = best.get(sig2)
            if old is None or len(detail) < len(old[0]):
                best[sig2] = (detail, label, r["backend"])
    for sig, (detail, label, backend) in sorted(best.items()):
        ctx.violation(sig, {"scenario": "ircases", "case": label,
                            "tier": ctx.tier, "backend": backend,
                            "detail": detail})
    n = sum(r["evaluations"] for r in results)
    cov = {
        "states": sum(r["cases"] for r in results),
        "transitions": n,
        "traces_validated_against_impl": n,
        "backends_actually_used": [r["backend"] for r in results],
        "cases_per_backend": [r["cases"] for r in results],
        "per_case": "2 writer runs (AuxData given as UUIDs / as nodes) + %d "
        "reader messages (%s)" % (len(TWEAKS), [
            "plain" if t is None else ",".join(t) for t in TWEAKS]),
        "exhaustive": len(results) == 2,
        "bound": "the C01 case space without double deviations; every enum "
        "constant of every schema enum is taken from the descriptors",
        "samples": ["base", "module[1].isa=9", "cfg.labels=(5,True,False)"],
    }
    return ctx.finish(
        "model_checking", cov,
        ["a state is one IR specification; a transition is one writer or "
         "reader run on the real code", "messages for the reader direction "
         "are built with the classes generated from /repo/proto by "
         "mc/miniprotoc.py", "oracles: irgen.spec_to_plain (schema-side) and "
         "irgen.expected_snapshot (API-side)"])


def replay(doc):
    tier = doc.get("tier", "quick")
    for label, spec in ircases.reader_cases(tier):
        if label == doc["case"]:
            v = check_spec(label, spec)
            for s, d in v:
                print(s, "--", d[:400])
            hit = any(s == doc["signature"] for s, _ in v)
            print("case %s: %s" % (label, "reproduced" if hit else
                                   "NOT reproduced"))
            return 1 if hit else 0
    print("case not found")
    return 2


if __name__ == "__main__":
    sys.exit(child_main(sys.argv[1:]))
