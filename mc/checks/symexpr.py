"""Scenario "symexpr": symbolic-expression lookup by address (C13) and the
mutable-mapping refinement of ByteInterval.symbolic_expressions (C16), by
explicit-state exploration to fix-point against a dict shadow and a fresh
scan."""

import io
import uuid as uuidlib

from .. import explore

BIG = (1 << 64) - 1


def U(k):
    return uuidlib.UUID(int=0x7000 + k)


def qrange(q):
    return range(q, q + 1) if isinstance(q, int) else q


def queries(big):
    qs = list(range(-1, 9))
    qs += [range(0, 8), range(-1, 8, 2), range(1, 8, 2), range(0, 8, 3),
           range(-1, 9, 3), range(1, 9, 4), range(2, 2), range(5, 3),
           range(0, 2), range(3, 6), range(2, 3, 9)]
    if big:
        qs += [BIG, BIG - 1, range(BIG - 2, BIG + 2), range(0, BIG + 3),
               range(1, BIG + 3, 2), range(BIG - 1, BIG + 1, 3)]
    return qs


class World:
    pass


class SymExprScenario(explore.Scenario):
    name = "symexpr"
    skip_class_names = ("LazyIntervalTree",)

    def __init__(self, keys=(0, 1, 3), nexpr=2, big=False, index_focus=False):
        # index_focus: a second, depth-bounded exploration in which the lazily
        # maintained section index is part of the state (not skipped) and the
        # alphabet is restricted to moves, a few edits and lookups
        self.index_focus = index_focus
        if index_focus:
            self.skip_class_names = ()
        self.keys = list(keys) + ([BIG] if big else [])
        # E1 and E3 are equal but distinct objects (identity matters: a dict
        # stores the object it was given); E2 is of the other kind
        self.exprs = ["E1", "E3"] if nexpr == 2 else ["E1", "E2", "E3"][:nexpr]
        self.big = big
        self.qs = queries(big)

    def initial_states(self):
        return ["empty", "two", "loaded"]

    def build(self, init):
        import gtirb as g

        w = World()
        w.g = g
        ir = g.IR(uuid=U(0))
        m1 = g.Module(name="m1", uuid=U(1), ir=ir)
        s1 = g.Section(name="s1", uuid=U(2), module=m1)
        s2 = g.Section(name="s2", uuid=U(3), module=m1)
        y1 = g.Symbol("y", uuid=U(4), module=m1)
        b1 = g.ByteInterval(address=0, size=4, uuid=U(5), section=s1)
        b2 = g.ByteInterval(address=2, size=4, uuid=U(6), section=s2)
        b3 = g.ByteInterval(address=6, size=2, uuid=U(7), section=s1)
        w.objs = {"I1": ir, "M1": m1, "S1": s1, "S2": s2, "Y1": y1, "B1": b1,
                  "B2": b2, "B3": b3}
        A = g.SymbolicExpression.Attribute
        w.objs["E1"] = g.SymAddrConst(1, y1, {A.GOT})
        w.objs["E2"] = g.SymAddrAddr(2, 3, y1, y1)
        w.objs["E3"] = g.SymAddrConst(1, y1, {A.GOT})  # equal to E1, other object
        w.objs["EX"] = g.SymAddrConst(9, y1)
        b2.symbolic_expressions[1] = w.objs["EX"]
        w.shadow = {}
        w.shadow2 = {1: "EX"}
        w.place = "S1"
        if init in ("two", "loaded"):
            b1.symbolic_expressions[3] = w.objs[self.exprs[-1]]
            b1.symbolic_expressions[0] = w.objs["E1"]
            w.shadow = {3: self.exprs[-1], 0: "E1"}
        if init == "loaded":
            self.save_load(w)
        return w

    def save_load(self, w):
        buf = io.BytesIO()
        w.objs["I1"].save_protobuf_file(buf)
        ir = w.g.IR.load_protobuf_file(io.BytesIO(buf.getvalue()))
        by_uuid = {o.uuid: n for n, o in w.objs.items() if hasattr(o, "uuid")}
        found = {"I1": ir}
        for m in ir.modules:
            found[by_uuid[m.uuid]] = m
            for s in m.sections:
                found[by_uuid[s.uuid]] = s
                for b in s.byte_intervals:
                    found[by_uuid[b.uuid]] = b
            for y in m.symbols:
                found[by_uuid[y.uuid]] = y
        w.objs.update(found)
        # expressions are values: after a load each key holds a fresh object;
        # rebind the shadow names key by key (shared objects become distinct)
        new_shadow = {}
        for k, nm in w.shadow.items():
            e = w.objs["B1"].symbolic_expressions.get(k)
            fresh = "L%d" % k
            w.objs[fresh] = e
            new_shadow[k] = fresh
        w.shadow = new_shadow
        e = w.objs["B2"].symbolic_expressions.get(1)
        w.objs["EX"] = e
        # the expression values offered to the operations must refer to the
        # LOADED symbol: the old ones would drag the whole pre-load graph
        # (unnamed, in hash order) into the state fingerprint
        g = w.g
        y1 = w.objs["Y1"]
        A = g.SymbolicExpression.Attribute
        w.objs["E1"] = g.SymAddrConst(1, y1, {A.GOT})
        w.objs["E2"] = g.SymAddrAddr(2, 3, y1, y1)
        w.objs["E3"] = g.SymAddrConst(1, y1, {A.GOT})

    def ops(self, w):
        if self.index_focus:
            out = [["setitem", 0, "E1"], ["setitem", 3, "E3"], ["delitem", 0]]
            for t in ("S1", "S2", None):
                out.append(["move", t])
            for t in ("S1", "S2"):
                out.append(["move_add", t])
                out.append(["move_update", t])
            out.append(["move_discard"])
            for a in (0, 2):
                out.append(["addr", "B1", a])
            for sz in (0, 4):
                out.append(["size", "B1", sz])
            out.append(["lookups"])
            return out
        out = []
        for k in self.keys:
            for e in self.exprs:
                out.append(["setitem", k, e])
                out.append(["setdefault", k, e])
            out.append(["delitem", k])
            out.append(["pop", k])
            out.append(["popdefault", k])
            for dn in ("none", "zero"):
                out.append(["popnone", k, dn])
                out.append(["getnone", k, dn])
        out.append(["popitem"])
        out.append(["clear"])
        ex = self.exprs
        out.append(["update", "dict", [[0, ex[0]], [3, ex[-1]]]])
        out.append(["update", "pairs", [[1, ex[-1]], [1, ex[0]]]])
        out.append(["update", "dict", []])
        # live operands: the mapping itself, its own items view, the mapping
        # of another interval
        for k in ("update_self", "update_own_items", "update_other"):
            out.append([k])
        out.append(["assign", []])
        out.append(["assign", [[1, ex[0]]]])
        out.append(["assign", [[3, ex[0]], [0, ex[-1]]]])
        out.append(["assign_self"])
        out.append(["assign_other"])
        for a in (None, 0, 2):
            out.append(["addr", "B1", a])
        for a in (None, 2):
            out.append(["addr", "B2", a])
        for s in (0, 2, 4):
            out.append(["size", "B1", s])
        for t in ("S1", "S2", None):
            out.append(["move", t])
        # the same moves issued from the container side
        for t in ("S1", "S2"):
            out.append(["move_add", t])
            out.append(["move_update", t])
        out.append(["move_discard"])
        # observations as operations (may build / cache index state)
        out.append(["lookups"])
        if w.place is not None:
            out.append(["save_load"])
        return out

    def prefix_ok(self, op):
        # objects created by a load reference the loaded graph; the loaded
        # world is an initial state instead of a prefix
        return op[0] != "save_load"

    def apply(self, w, op):
        O = w.objs
        d = O["B1"].symbolic_expressions
        sh = w.shadow
        kind = op[0]
        v = []
        name = {id(o): n for n, o in O.items()}

        def nm(o):
            return None if o is None else name.get(id(o), "?")

        want_exc = None
        want = "skip"
        exc = None
        got = None
        try:
            if kind == "setitem":
                ref = dict(sh)
                ref[op[1]] = op[2]
                want = None
                got = d.__setitem__(op[1], O[op[2]])
                sh.clear()
                sh.update(ref)
            elif kind == "setdefault":
                want = sh.setdefault(op[1], op[2])
                got = nm(d.setdefault(op[1], O[op[2]]))
            elif kind == "delitem":
                if op[1] not in sh:
                    want_exc = "KeyError"
                else:
                    del sh[op[1]]
                want = None
                got = d.__delitem__(op[1])
            elif kind == "pop":
                if op[1] not in sh:
                    want_exc = "KeyError"
                else:
                    want = sh.pop(op[1])
                got = nm(d.pop(op[1]))
            elif kind == "popdefault":
                want = sh.pop(op[1], "DEFAULT")
                r = d.pop(op[1], "DEFAULT")
                got = r if r == "DEFAULT" else nm(r)
            elif kind == "popnone":
                # the default the caller passes is None / falsy itself
                dflt = None if op[2] == "none" else 0
                want = sh.pop(op[1], dflt)
                r = d.pop(op[1], dflt)
                got = r if (r is None or r == 0) else nm(r)
            elif kind == "getnone":
                dflt = None if op[2] == "none" else 0
                want = sh.get(op[1], dflt)
                r = d.get(op[1], dflt)
                got = r if (r is None or r == 0) else nm(r)
            elif kind == "popitem":
                if not sh:
                    want_exc = "KeyError"
                r = d.popitem()
                got = (r[0], nm(r[1]))
                if sh.get(r[0]) != got[1]:
                    v.append(("C16/popitem-non-member", repr(got)))
                else:
                    del sh[r[0]]
                want = got
            elif kind == "clear":
                sh.clear()
                want = None
                got = d.clear()
            elif kind == "update":
                pairs = [(k, e) for k, e in op[2]]
                if op[1] == "dict":
                    sh.update(dict(pairs))
                    got = d.update({k: O[e] for k, e in pairs})
                else:
                    sh.update(pairs)
                    got = d.update([(k, O[e]) for k, e in pairs])
                want = None
            elif kind == "update_self":
                want = None
                got = d.update(d)
            elif kind == "update_own_items":
                want = None
                got = d.update(d.items())
            elif kind == "update_other":
                want = None
                got = d.update(O["B2"].symbolic_expressions)
                sh.update(w.shadow2)
            elif kind == "assign":
                pairs = [(k, e) for k, e in op[1]]
                O["B1"].symbolic_expressions = {k: O[e] for k, e in pairs}
                sh.clear()
                sh.update(dict(pairs))
                if O["B1"].symbolic_expressions is not d:
                    pass  # replacing the wrapper object is allowed
            elif kind == "assign_self":
                O["B1"].symbolic_expressions = O["B1"].symbolic_expressions
            elif kind == "assign_other":
                # assigning another interval's mapping copies its items
                O["B1"].symbolic_expressions = O["B2"].symbolic_expressions
                sh.clear()
                sh.update(w.shadow2)
            elif kind == "addr":
                O[op[1]].address = op[2]
            elif kind == "size":
                O[op[1]].size = op[2]
            elif kind == "move":
                O["B1"].section = None if op[1] is None else O[op[1]]
                w.place = op[1]
            elif kind == "move_add":
                O[op[1]].byte_intervals.add(O["B1"])
                w.place = op[1]
            elif kind == "move_update":
                O[op[1]].byte_intervals.update([O["B1"]])
                w.place = op[1]
            elif kind == "move_discard":
                if w.place is not None:
                    O[w.place].byte_intervals.discard(O["B1"])
                w.place = None
            elif kind == "lookups":
                for scope in ("B1", "S1", "S2", "M1", "I1"):
                    list(O[scope].symbolic_expressions_at(range(0, 8)))
                O["S1"].address, O["S2"].size
            elif kind == "save_load":
                self.save_load(w)
            else:
                raise ValueError(op)
        except KeyError:
            exc = "KeyError"
        except Exception as e:  # noqa
            exc = type(e).__name__
        if exc != want_exc:
            v.append(("C16/mapping-exception:%s:expected=%s:got=%s"
                      % (kind, want_exc, exc), "%s on %s" % (op, sh)))
        elif exc is None and want != "skip" and got != want:
            v.append(("C16/mapping-return:%s" % kind,
                      "%s returned %r, dict gives %r" % (op, got, want)))
        return v

    def check(self, w):
        v = []
        O = w.objs
        name = {id(o): n for n, o in O.items()}

        def nm(o):
            return None if o is None else name.get(id(o), "?")

        b1, b2 = O["B1"], O["B2"]
        d = b1.symbolic_expressions
        sh = w.shadow
        # ---- C16: contents, order, views
        items = [(k, nm(e)) for k, e in d.items()]
        if items != sorted(sh.items()):
            v.append(("C16/mapping-contents",
                      "items %s, dict shadow %s" % (items, sorted(sh.items()))))
        if list(d) != sorted(sh) or list(d.keys()) != sorted(sh) \
                or [nm(e) for e in d.values()] != [sh[k] for k in sorted(sh)]:
            v.append(("C16/mapping-iteration", "%s vs %s" % (list(d), sorted(sh))))
        if len(d) != len(sh):
            v.append(("C16/mapping-len", ""))
        for k in self.keys + [2]:
            if (k in d) != (k in sh):
                v.append(("C16/mapping-contains", str(k)))
            if nm(d.get(k)) != sh.get(k):
                v.append(("C16/mapping-get", str(k)))
            try:
                r = nm(d[k])
                if k not in sh or r != sh[k]:
                    v.append(("C16/mapping-getitem", str(k)))
            except KeyError:
                if k in sh:
                    v.append(("C16/mapping-getitem-keyerror", str(k)))
        plain = {k: O[e] for k, e in sh.items()}
        if not (d == plain) or (d != plain) or not (plain == d):
            v.append(("C16/mapping-eq", "wrapper != equal dict"))
        other = dict(plain)
        other[99] = O["E1"]
        if d == other:
            v.append(("C16/mapping-eq", "wrapper == different dict"))
        return v[:10]

    def check_state(self, w):
        v = []
        O = w.objs
        name = {id(o): n for n, o in O.items()}

        def nm(o):
            return None if o is None else name.get(id(o), "?")

        b1, b2 = O["B1"], O["B2"]
        sh = w.shadow
        # ---- C13: lookups
        st = {
            "B1": (b1.address, b1.size, sorted(sh.items())),
            "B2": (b2.address, b2.size, sorted(w.shadow2.items())),
        }
        placing = {"S1": ["B1"] if w.place == "S1" else [],
                   "S2": ["B2"] + (["B1"] if w.place == "S2" else [])}
        for q in self.qs:
            r = qrange(q)
            exact = {}
            for b in ("B1", "B2"):
                A, size, its = st[b]
                exact[(b, "off")] = [(b, k, e) for k, e in its if k in r]
                exact[(b, "addr")] = [] if A is None else [
                    (b, k, e) for k, e in its if (A + k) in r]
            for b, o in (("B1", b1), ("B2", b2)):
                got = [(nm(i), k, nm(e))
                       for i, k, e in o.symbolic_expressions_at(q)]
                if got != exact[(b, "addr")]:
                    kind = ("order" if sorted(got) == sorted(exact[(b, "addr")])
                            else "differs")
                    v.append(("C13/interval-at:%s" % kind,
                              "%s.symbolic_expressions_at(%r) = %s, scan gives "
                              "%s (address %r)" % (b, q, got, exact[(b, "addr")],
                                                   st[b][0])))
                got = [(nm(i), k, nm(e))
                       for i, k, e in o.symbolic_expressions_at_offset(q)]
                if got != exact[(b, "off")]:
                    kind = ("order" if sorted(got) == sorted(exact[(b, "off")])
                            else "differs")
                    v.append(("C13/interval-at-offset:%s" % kind,
                              "%s.symbolic_expressions_at_offset(%r) = %s, scan "
                              "gives %s" % (b, q, got, exact[(b, "off")])))
            scopes = {"S1": placing["S1"], "S2": placing["S2"],
                      "M1": placing["S1"] + placing["S2"],
                      "I1": placing["S1"] + placing["S2"]}
            for scope, ivs in scopes.items():
                may, must = [], []
                for b in ivs:
                    may += exact[(b, "addr")]
                    must += [t for t in exact[(b, "addr")]
                             if t[1] < st[b][1]]
                got = [(nm(i), k, nm(e))
                       for i, k, e in O[scope].symbolic_expressions_at(q)]
                if len(set(got)) != len(got):
                    v.append(("C13/scope-duplicate:%s" % scope[0],
                              "%s(%r) = %s" % (scope, q, got)))
                elif not (set(must) <= set(got) <= set(may)):
                    kind = "missing" if set(must) - set(got) else "extra"
                    v.append(("C13/scope-%s:%s" % (kind, scope[0]),
                              "%s.symbolic_expressions_at(%r) = %s, must "
                              "contain %s, may contain %s; %s"
                              % (scope, q, got, must, may, st)))
        return v[:10]


def plans_for(ctx):
    if ctx.prop == "C16":
        # the mapping refinement does not depend on the section index
        return [("symexpr", SymExprScenario(), None)]
    # (the small depth-bounded exploration first: a loaded machine must not
    # cut it off behind the big fix-point)
    if ctx.tier == "quick":
        return [("symexpr(index in state, depth<=4)",
                 SymExprScenario(index_focus=True), 3),
                ("symexpr", SymExprScenario(), None)]
    return [("symexpr(index in state, depth<=6)",
             SymExprScenario(index_focus=True), 5),
            ("symexpr", SymExprScenario(), None),
            ("symexpr(3 exprs, key 2^64-1)",
             SymExprScenario(keys=(0, 3), nexpr=3, big=True), None)]


def run(ctx, prop=None):
    covs = []
    plans = plans_for(ctx)
    for label, sc, depth in plans:
        covs.append(explore.explore(ctx, sc, label=label, max_depth=depth,
                                    probe_leaves=depth is not None))
        if ctx.out_of_time(0.9):
            break
    samples = []
    for c in covs:
        samples += c.pop("samples")[:4]
    cov = {
        "states": sum(c["states"] for c in covs),
        "transitions": sum(c["transitions"] for c in covs),
        "traces_validated_against_impl": sum(c["transitions"] for c in covs),
        "explorations": covs,
        "exhaustive": all(c["exhaustive"] or "index in state" in c["scenario"]
                          for c in covs) and len(covs) == len(plans),
        "queries_per_state": len(plans[0][1].qs),
        "bound": "fix-point over mapping contents (keys x expressions), "
        "interval address {None,0,2}, size {0,2,4}, section placement",
        "samples": samples,
    }
    if ctx.prop == "C16":
        return cov
    return ctx.finish(
        "model_checking", cov,
        ["oracle: scan of the dict shadow filtered by range membership, in "
         "increasing offset order; wider scopes Must <= R <= May"])


def replay(doc):
    big = "2^64" in doc.get("scenario", "")
    sc = SymExprScenario(keys=(0, 3), nexpr=3, big=True) if big \
        else SymExprScenario()
    if "index in state" in doc.get("scenario", ""):
        sc = SymExprScenario(index_focus=True)
    w = sc.build(doc["init"])
    for op in doc["history"]:
        sc.apply(w, op)
    v = []
    if doc.get("op") is not None:
        v += sc.apply(w, doc["op"])
    v += sc.check(w)
    v += sc.check_state(w)
    for s, d in v:
        print(s, "--", d)
    hit = any(s == doc["signature"] for s, _ in v)
    print("init=%s history=%s op=%s: %s" % (
        doc["init"], doc["history"], doc.get("op"),
        "reproduced" if hit else "NOT reproduced"))
    return 1 if hit else 0
