"""Cross-feature stories.

The per-property scenarios keep their alphabets apart (moves; layout edits;
symbols; CFG; expressions).  This scenario puts operations of ALL features
into one alphabet over one medium IR (2 IRs, 3 modules, sections, intervals,
blocks, symbols with referents, expressions, CFG edges) and explores every
history up to a depth, with the whole-IR oracle (mc/oracle.py: containment
from both ends, UUID table, every lookup structure and the CFG adjacency
against a fresh scan) after every transition, and - as probes of every
expanded state - the same oracle on a save+load copy (when the IR is
self-contained), on a deep copy, and deep_eq between them.

It has no model of what an operation should do (the per-property scenarios
have): it checks that whatever state the operations lead to is coherent and
that every index and lookup tells the truth about it."""

import copy
import io
import uuid as uuidlib

from .. import explore, oracle


def U(k):
    return uuidlib.UUID(int=0x5700 + k)


class World:
    pass


class StoryScenario(explore.Scenario):
    name = "story"
    skip_class_names = ("LazyIntervalTree",)

    def __init__(self, prop, index_in_state=False):
        self.prop = prop
        if index_in_state:
            self.skip_class_names = ()

    def initial_states(self):
        return ["built", "warm"]

    def build(self, init):
        import gtirb as g

        w = World()
        w.g = g
        O = {}
        ir = O["I1"] = g.IR(uuid=U(1))
        O["I2"] = g.IR(uuid=U(2))
        m1 = O["M1"] = g.Module(name="m", uuid=U(3), ir=ir)
        m2 = O["M2"] = g.Module(name="m", uuid=U(4), ir=ir)
        O["M3"] = g.Module(name="other", uuid=U(5), ir=O["I2"])
        s1 = O["S1"] = g.Section(name=".text", uuid=U(6), module=m1)
        s2 = O["S2"] = g.Section(name=".data", uuid=U(7), module=m1)
        s3 = O["S3"] = g.Section(name=".text", uuid=U(8), module=m2)
        b1 = O["B1"] = g.ByteInterval(address=0x10, size=0x10, uuid=U(9),
                                      contents=b"\x01\x02\x03\x04",
                                      section=s1)
        b2 = O["B2"] = g.ByteInterval(address=0x20, size=0x10, uuid=U(10),
                                      section=s1)
        b3 = O["B3"] = g.ByteInterval(address=0x10, size=0x10, uuid=U(11),
                                      section=s2)
        b4 = O["B4"] = g.ByteInterval(address=None, size=0x10, uuid=U(12),
                                      section=s3)
        k1 = O["K1"] = g.CodeBlock(offset=0, size=4, uuid=U(13),
                                   byte_interval=b1)
        k2 = O["K2"] = g.CodeBlock(offset=4, size=4, uuid=U(14),
                                   byte_interval=b1)
        d1 = O["D1"] = g.DataBlock(offset=0, size=8, uuid=U(15),
                                   byte_interval=b2)
        k3 = O["K3"] = g.CodeBlock(offset=0, size=0, uuid=U(16),
                                   byte_interval=b3)
        d2 = O["D2"] = g.DataBlock(offset=8, size=4, uuid=U(17),
                                   byte_interval=b4)
        p1 = O["P1"] = g.ProxyBlock(uuid=U(18), module=m1)
        O["P2"] = g.ProxyBlock(uuid=U(19), module=m2)
        y1 = O["Y1"] = g.Symbol("f", payload=k1, uuid=U(20), module=m1)
        y2 = O["Y2"] = g.Symbol("f", payload=d1, uuid=U(21), module=m1)
        O["Y3"] = g.Symbol("g", payload=p1, uuid=U(22), module=m1)
        O["Y4"] = g.Symbol("f", payload=7, uuid=U(23), module=m2)
        b1.symbolic_expressions[0] = g.SymAddrConst(0, y1)
        b1.symbolic_expressions[4] = g.SymAddrAddr(1, 0, y1, y2)
        b3.symbolic_expressions[8] = g.SymAddrConst(2, y2)
        L = g.Edge.Label
        T = g.Edge.Type
        w.edges = [g.Edge(k1, k2, L(T.Fallthrough)), g.Edge(k1, p1, L(T.Call)),
                   g.Edge(k2, k1, None), g.Edge(k3, k3, L(T.Branch, True)),
                   g.Edge(p1, k3, None)]
        ir.cfg.update(w.edges[:4])
        m1.entry_point = k1
        ir.aux_data["t"] = g.AuxData([k1, d1.uuid, U(99)], "sequence<UUID>")
        w.objs = O
        if init == "warm":
            self.lookups(w)
        return w

    def lookups(self, w):
        for n, o in w.objs.items():
            if n[0] == "I":
                list(o.byte_blocks_on(range(0, 0x40)))
                list(o.byte_intervals_at(0x10))
                list(o.sections_on(0x10))
                list(o.symbolic_expressions_at(range(0, 0x40)))
                o.get_by_uuid(U(13))
            elif n[0] == "M":
                list(o.symbols_named("f"))
                list(o.byte_blocks_at(0x10))
            elif n[0] == "S":
                o.address, o.size
                list(o.byte_intervals_on(0x10))
            elif n[0] == "B":
                list(o.byte_blocks_on_offset(0))
                list(o.symbolic_expressions_at_offset(range(0, 16)))
            elif n[0] in "KDP":
                list(o.references)
                if n[0] != "D":
                    list(o.incoming_edges)

    # ----------------------------------------------------------------- ops
    def ops(self, w):
        out = []
        for k in ("K1", "D1", "K3"):
            for t in ("B1", "B3", "B4", None):
                out.append(["kmove", k, t])
            # the same move issued from the collection side
            out.append(["kadd", k, "B3"])
            out.append(["kadd", k, "B4"])
            for o in (0, 8):
                out.append(["koff", k, o])
            for s_ in (0, 8):
                out.append(["ksize", k, s_])
        for b in ("B1", "B3", "B4"):
            for t in ("S1", "S3", None):
                out.append(["bmove", b, t])
            out.append(["badd", b, "S2"])
            for a in (None, 0x10, 0x20):
                out.append(["baddr", b, a])
            out.append(["bsize", b, 0x20])
            out.append(["expr_set", b, 8, "Y1"])
            out.append(["expr_del", b, 0])
        for s_ in ("S1", "S3"):
            for t in ("M1", "M2", "M3", None):
                out.append(["smove", s_, t])
        for m in ("M1", "M2"):
            for t in ("I1", "I2", None):
                out.append(["mmove", m, t])
        out.append(["mods_reverse", "I1"])
        for y in ("Y1", "Y2", "Y4"):
            for nm in ("f", "g"):
                out.append(["yname", y, nm])
            for t in ("K1", "D1", "P2", None, 0):
                out.append(["ypayload", y, t])
            for t in ("M1", "M2", None):
                out.append(["ymove", y, t])
        for t in ("M1", "M2", None):
            out.append(["pmove", "P1", t])
        for i in (0, 1, 4):
            out.append(["eadd", i])
            out.append(["edisc", i])
        out.append(["cfg_clear"])
        out.append(["lookups"])
        return out

    def prefix_ok(self, op):
        return True

    def apply(self, w, op):
        O = w.objs
        g = w.g
        kind = op[0]

        def at(n):
            return None if n is None else O[n]

        try:
            if kind == "kmove":
                O[op[1]].byte_interval = at(op[2])
            elif kind == "kadd":
                O[op[2]].blocks.add(O[op[1]])
            elif kind == "badd":
                O[op[2]].byte_intervals.update([O[op[1]]])
            elif kind == "koff":
                O[op[1]].offset = op[2]
            elif kind == "ksize":
                O[op[1]].size = op[2]
            elif kind == "bmove":
                O[op[1]].section = at(op[2])
            elif kind == "baddr":
                O[op[1]].address = op[2]
            elif kind == "bsize":
                O[op[1]].size = op[2]
            elif kind == "expr_set":
                O[op[1]].symbolic_expressions[op[2]] = g.SymAddrConst(
                    op[2], O[op[3]])
            elif kind == "expr_del":
                O[op[1]].symbolic_expressions.pop(op[2], None)
            elif kind == "smove":
                O[op[1]].module = at(op[2])
            elif kind == "mmove":
                O[op[1]].ir = at(op[2])
            elif kind == "mods_reverse":
                O[op[1]].modules.reverse()
            elif kind == "yname":
                O[op[1]].name = op[2]
            elif kind == "ypayload":
                if op[2] == 0:
                    O[op[1]].value = 0
                elif op[2] is None:
                    O[op[1]].referent = None
                    O[op[1]].value = None
                else:
                    O[op[1]].referent = O[op[2]]
            elif kind == "ymove":
                O[op[1]].module = at(op[2])
            elif kind == "pmove":
                O[op[1]].module = at(op[2])
            elif kind == "eadd":
                O["I1"].cfg.add(w.edges[op[1]])
            elif kind == "edisc":
                O["I1"].cfg.discard(w.edges[op[1]])
            elif kind == "cfg_clear":
                O["I1"].cfg.clear()
            elif kind == "lookups":
                self.lookups(w)
            else:
                raise ValueError(op)
        except Exception as e:  # noqa
            # a legal operation that raises is a finding of the properties
            # that own the operation, not of whichever check happens to run
            owners = {
                "kmove": ("C04", "C16"), "bmove": ("C04", "C16"),
                "kadd": ("C04", "C16"), "badd": ("C04", "C16"),
                "smove": ("C04", "C16"), "mmove": ("C04", "C16"),
                "ymove": ("C04", "C16", "C10"), "pmove": ("C04", "C16"),
                "mods_reverse": ("C04", "C16"),
                "koff": ("C05",), "ksize": ("C05",),
                "baddr": ("C06",), "bsize": ("C06", "C19"),
                "expr_set": ("C13", "C16"), "expr_del": ("C13", "C16"),
                "yname": ("C10",), "ypayload": ("C10",),
                "eadd": ("C11",), "edisc": ("C11",), "cfg_clear": ("C11",),
                "lookups": ("C05", "C06", "C10", "C11", "C13"),
            }.get(kind, ())
            return [("%s/story:operation-raises:%s:%s"
                     % (p_, kind, type(e).__name__), "%s: %r" % (op, e))
                    for p_ in owners]
        return []

    # --------------------------------------------------------------- checks
    def check(self, w):
        out = []
        irs = [w.objs["I1"], w.objs["I2"]]
        for ir, other in ((irs[0], irs[1]), (irs[1], irs[0])):
            for sig, d in oracle.check_ir(w.g, ir, others=[other],
                                          light=True, props=self.parts()):
                out.append((self.rename(sig).replace("/clone:", "/story:"),
                            d))
        return out

    def parts(self):
        """the parts of the whole-IR oracle this property owns (C12 is about
        the same lookups as C05 / C06)"""
        return {"C12": ("C05", "C06", "C12")}.get(self.prop, (self.prop,))

    def rename(self, sig):
        if self.prop == "C12" and sig[:3] in ("C05", "C06"):
            return "C12" + sig[3:]
        return sig

    def self_contained(self, ir):
        t = oracle.tree(ir)
        mine = {id(x) for lst in t.values() for x in lst}
        for m in t["modules"]:
            inm = {id(x) for x in m.proxies} | {
                id(k) for s in m.sections for b in s.byte_intervals
                for k in b.blocks}
            syms = {id(y) for y in m.symbols}
            if m.entry_point is not None and id(m.entry_point) not in inm:
                return False
            for y in m.symbols:
                if y.referent is not None and id(y.referent) not in inm:
                    return False
            for s in m.sections:
                for b in s.byte_intervals:
                    for e in b.symbolic_expressions.values():
                        if any(id(sy) not in syms for sy in e.symbols):
                            return False
                    if len(b.contents) > b.size:
                        return False
        for e in ir.cfg:
            if id(e.source) not in mine or id(e.target) not in mine:
                return False
        return True

    def check_state(self, w):
        """save+load and deep copy of the IR reached by this history"""
        out = []
        g = w.g
        x = w.objs["I1"]
        try:
            y = copy.deepcopy(x)
        except Exception:  # noqa
            y = None
        if y is not None:
            for sig, d in oracle.check_ir(g, y, others=[x],
                                          props=self.parts()):
                out.append((self.rename(sig).replace(
                    "/clone:", "/story-deepcopy:"), d))
            if not (x.deep_eq(y) and y.deep_eq(x)):
                out.append(("C18/story:deep-copy-not-deep_eq", ""))
        if self.self_contained(x):
            try:
                buf = io.BytesIO()
                x.save_protobuf_file(buf)
                z = g.IR.load_protobuf_file(io.BytesIO(buf.getvalue()))
            except Exception as e:  # noqa
                out.append(("C01/story:save-or-load-raises:%s"
                            % type(e).__name__, repr(e)[:200]))
                return out
            for sig, d in oracle.check_ir(g, z, others=[x],
                                          props=self.parts()):
                out.append((self.rename(sig).replace(
                    "/clone:", "/story-loaded:"), d))
            if not (x.deep_eq(z) and z.deep_eq(x)):
                out.append(("C01/story:loaded-not-deep_eq", ""))
                out.append(("C18/story:loaded-not-deep_eq", ""))
            buf2 = io.BytesIO()
            z.save_protobuf_file(buf2)
            if len(buf2.getvalue()) != len(buf.getvalue()):
                out.append(("C01/story:resave-differs", ""))
        return out


PROPS = ("C01", "C03", "C04", "C05", "C06", "C10", "C11", "C12", "C13", "C18",
         "C19")


def run(ctx):
    """explored in front of the property's own scenarios; coverage goes into
    ctx.extra_cov"""
    if ctx.prop not in PROPS:
        return
    import time

    depth = 2 if ctx.tier == "quick" else 3
    sc = StoryScenario(ctx.prop)
    # its own time budget; the property's own exploration keeps all of its
    t0, budget = ctx.t0, ctx.budget
    started = time.time()
    ctx.t0, ctx.budget = started, min(
        60 if ctx.tier == "quick" else 300, budget)
    try:
        cov = explore.explore(ctx, sc, max_depth=depth,
                              state_cap=None, label="story(depth<=%d)" % depth)
    finally:
        ctx.t0, ctx.budget = t0 + (time.time() - started), budget
    cov["wall_s"] = round(time.time() - started, 1)
    ctx.extra_cov["cross_feature_stories"] = {
        k: cov.get(k) for k in ("states", "transitions", "max_depth_completed",
                                "exhaustive", "scenario", "wall_s")}


def replay(doc):
    sc = StoryScenario(doc["property"])
    w = sc.build(doc["init"])
    for op in doc["history"]:
        sc.apply(w, op)
    v = []
    if doc.get("op") is not None:
        v += sc.apply(w, doc["op"])
    v += sc.check(w)
    v += sc.check_state(w)
    print("init=%s history=%s op=%s" % (doc["init"], doc["history"],
                                        doc.get("op")))
    for s_, d in v[:8]:
        print("  ", s_, "--", d[:300])
    hit = any(s_ == doc["signature"] for s_, _ in v)
    print("reproduced" if hit else "NOT reproduced")
    return 1 if hit else 0
