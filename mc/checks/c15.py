"""C15 - AuxData type names parse exactly per the grammar.

Exhaustive enumeration of every string over a small alphabet up to a length
bound; oracle = independent recursive-descent recogniser for
    T ::= name | name '<' T (',' T)* '>'
"""

import io
import itertools

from .. import common


# ---------------------------------------------------------------- reference
def ref_parse(s):
    """Returns the tree (name, (subtrees...)) or None if s is not in L(T)."""
    n = len(s)

    def name(i):
        j = i
        while j < n and s[j] not in "<>,":
            j += 1
        return j

    def T(i):
        j = name(i)
        if j == i:
            return None
        nm = s[i:j]
        if j < n and s[j] == "<":
            subs = []
            k = j + 1
            while True:
                r = T(k)
                if r is None:
                    return None
                tree, k = r
                subs.append(tree)
                if k < n and s[k] == ",":
                    k += 1
                    continue
                if k < n and s[k] == ">":
                    return (nm, tuple(subs)), k + 1
                return None
        return (nm, ()), j

    r = T(0)
    if r is None or r[1] != n:
        return None
    return r[0]


def ref_print(tree):
    nm, subs = tree
    if not subs:
        return nm
    return nm + "<" + ",".join(ref_print(t) for t in subs) + ">"


def impl_tree(t):
    return (t.name, tuple(impl_tree(x) for x in t.subtypes))


# ------------------------------------------------------------------ worker
_FILE = {}


def classify(s, public):
    """Returns None if fine, else (kind, detail)."""
    import gtirb.serialization as ser

    want = ref_parse(s)
    try:
        got = ser.Serialization._parse_type(s)
    except ser.TypeNameError:
        got = None
    except RecursionError:
        return ("recursion", "RecursionError")
    except Exception as e:  # noqa
        return ("wrong-exception:" + type(e).__name__, repr(e)[:200])
    if want is None:
        if got is not None:
            return ("accepts-invalid", repr(impl_tree(got))[:200])
    else:
        if got is None:
            return ("rejects-valid", repr(want)[:200])
        try:
            gt = impl_tree(got)
        except Exception as e:  # noqa
            return ("bad-tree-object", repr(e)[:200])
        if gt != want:
            return ("wrong-tree", "want %r got %r" % (want, gt))
    if public:
        S = ser.Serialization()
        for which in ("decode", "encode"):
            try:
                if which == "decode":
                    S.decode(b"", s)
                else:
                    S.encode(io.BytesIO(), ser.UnknownData(b""), s)
                    # UnknownData short-circuits before parsing; also try a
                    # plain value so the type name is actually parsed
                    S.encode(io.BytesIO(), 0, s)
                raised = None
            except ser.TypeNameError:
                raised = "TypeNameError"
            except Exception as e:  # noqa
                raised = type(e).__name__
            if want is None and raised != "TypeNameError":
                return ("public-%s-no-TypeNameError" % which, str(raised))
            if want is not None and raised == "TypeNameError":
                return ("public-%s-TypeNameError-on-valid" % which, "")
        # the type name of an AuxData table, met when the IR is saved
        if len(s) <= 5 or len(s) > 12:
            import gtirb as g_

            for cont in ("ir", "module"):
                ir_ = g_.IR()
                m_ = g_.Module(name="m", ir=ir_)
                (ir_ if cont == "ir" else m_).aux_data["t"] = g_.AuxData(0, s)
                try:
                    ir_.save_protobuf_file(io.BytesIO())
                    raised = None
                except ser.TypeNameError:
                    raised = "TypeNameError"
                except Exception as e:  # noqa
                    raised = type(e).__name__
                if want is None and raised != "TypeNameError":
                    return ("save-of-%s-table-no-TypeNameError" % cont,
                            str(raised))
                if want is not None and raised == "TypeNameError":
                    return ("save-of-%s-table-TypeNameError-on-valid" % cont,
                            "")
            # ... and of a table that came from a file, was never read, and
            # was given the name afterwards
            if "loaded" not in _FILE:
                ir_ = g_.IR()
                m_ = g_.Module(name="m", ir=ir_)
                ir_.aux_data["t"] = g_.AuxData(0, "uint64_t")
                m_.aux_data["t"] = g_.AuxData(0, "uint64_t")
                buf_ = io.BytesIO()
                ir_.save_protobuf_file(buf_)
                _FILE["loaded"] = buf_.getvalue()
            for cont in ("ir", "module"):
                ir_ = g_.IR.load_protobuf_file(io.BytesIO(_FILE["loaded"]))
                c_ = ir_ if cont == "ir" else ir_.modules[0]
                c_.aux_data["t"].type_name = s
                try:
                    ir_.save_protobuf_file(io.BytesIO())
                    raised = None
                except ser.TypeNameError:
                    raised = "TypeNameError"
                except Exception as e:  # noqa
                    raised = type(e).__name__
                if want is None and raised != "TypeNameError":
                    return ("save-of-loaded-unread-%s-table-no-TypeNameError"
                            % cont, str(raised))
                if want is not None and raised == "TypeNameError":
                    return ("save-of-loaded-unread-%s-table-TypeNameError-on-"
                            "valid" % cont, "")
        # the same with a codec registered (documented extension point) under
        # the whole string as its key: acceptance and the tree must still
        # come from the grammar, not from the codec table
        hits = []

        class Marker(ser.Codec):
            @staticmethod
            def decode(raw_bytes, **kw):
                hits.append(tuple(kw.get("subtypes", ())))
                return "MARKER"

            @staticmethod
            def encode(out, item, **kw):
                hits.append(tuple(kw.get("subtypes", ())))

        S2 = ser.Serialization()
        S2.codecs[s] = Marker
        for which in ("decode", "encode"):
            del hits[:]
            try:
                if which == "decode":
                    S2.decode(b"", s)
                else:
                    S2.encode(io.BytesIO(), 0, s)
                raised = None
            except ser.TypeNameError:
                raised = "TypeNameError"
            except Exception as e:  # noqa
                raised = type(e).__name__
            if want is None and raised != "TypeNameError":
                return ("registered-key-%s-no-TypeNameError" % which,
                        str(raised))
            if want is not None and raised == "TypeNameError":
                return ("registered-key-%s-TypeNameError-on-valid" % which, "")
            if want is not None and want[1] and hits:
                # a composite name: its tree has root want[0] != s, so the
                # codec keyed by the whole string must not have been used
                return ("registered-key-%s-bypasses-parse" % which,
                        "codec keyed %r was invoked for the composite name"
                        % (s,))
    return None


def work(task):
    alphabet, prefix, total_len, public = task
    # prefix is a tuple of alphabet symbols (symbols may be multi-character
    # tokens); total_len counts symbols
    rest = total_len - len(prefix)
    n = acc = 0
    bad = []
    sample = None
    for tail in itertools.product(alphabet, repeat=rest):
        s = "".join(prefix) + "".join(tail)
        n += 1
        r = classify(s, public)
        if ref_parse(s) is not None:
            acc += 1
            if sample is None and len(s) >= 4:
                sample = s
        if r is not None and len(bad) < 20:
            bad.append((s, r[0], r[1], None))
    # the parser must be a pure function of its argument: after this batch of
    # calls, every short string must still be classified correctly (catches
    # state remembered between calls, e.g. a memo shared by two sites)
    for L in range(0, 6):
        for tup in itertools.product(alphabet[:4], repeat=L):
            s = "".join(tup)
            n += 1
            r = classify(s, False)
            if r is not None and len(bad) < 20:
                bad.append((s, "after-other-calls:" + r[0], r[1], task))
    return n, acc, bad, sample


SCHEMAS = [
    # sanctioned AuxData table types of the GTIRB ecosystem (AuxData.md)
    "mapping<UUID,UUID>", "mapping<UUID,set<UUID>>", "mapping<Offset,string>",
    "mapping<UUID,uint64_t>", "mapping<UUID,tuple<uint64_t,string,string,"
    "string,uint64_t>>", "mapping<Offset,sequence<tuple<string,"
    "sequence<int64_t>,UUID>>>", "sequence<string>", "set<UUID>",
    "mapping<UUID,sequence<tuple<uint64_t,sequence<tuple<uint8_t,int64_t>>>>>",
    "tuple<mapping<uint16_t,tuple<sequence<string>,uint16_t>>,"
    "mapping<string,mapping<uint16_t,string>>,"
    "mapping<UUID,tuple<uint16_t,bool>>>",
    "mapping<UUID,tuple<string,string,uint64_t>>",
    "sequence<tuple<string,uint64_t,uint64_t,uint64_t>>",
    "mapping<string,variant<int64_t,string,tuple<uint64_t,uint64_t>>>",
]


def magnitude_strings():
    """type names of realistic and larger size: many fields, deep nesting,
    long names, the sanctioned AuxData schemas - each also with one
    delimiter dropped, doubled or swapped (must be rejected)"""
    out = []
    for k in list(range(1, 40)) + [63, 64, 65, 100, 255, 256, 257, 1000]:
        out.append("tuple<" + ",".join(["a"] * k) + ">")
        out.append("variant<" + ",".join("f%d" % i for i in range(k)) + ">")
        out.append("t<" + ",".join(["m<k,v>"] * k) + ">")
    for d in list(range(1, 40)) + [64, 100, 200]:
        out.append("s<" * d + "x" + ">" * d)
        out.append("m<k," * d + "x" + ">" * d)
    for j in range(0, 14):
        nm = "n" * (1 << j)
        out += [nm, "sequence<%s>" % nm, "%s<%s,%s>" % (nm, nm, nm)]
    out += SCHEMAS
    # every short string too (for the str-subclass pass of work_magnitude)
    import itertools as _it

    for L in range(0, 5):
        for tup in _it.product(("a", "bool", "<", ">", ","), repeat=L):
            out.append("".join(tup))
    base = list(out[:len(out) - 781])
    for s in base:
        if len(s) < 3:
            continue
        mid = len(s) // 2
        last = s.rfind(">")
        if last > 0:
            out.append(s[:last] + s[last + 1:])        # one '>' dropped
            out.append(s[:last] + ">>" + s[last + 1:])  # one '>' too many
        first = s.find("<")
        if first > 0:
            out.append(s[:first] + s[first + 1:])      # '<' dropped
        c = s.rfind(",")
        if c > 0:
            out.append(s[:c] + ",," + s[c + 1:])       # empty field
            out.append(s[:c] + ">" + s[c + 1:])        # ',' -> '>'
        out.append(s[:mid] + "<" + s[mid:])            # stray '<'
    return out


class StrSub(str):
    """a str subclass instance is a string like any other"""


def work_magnitude(chunk):
    import sys

    sys.setrecursionlimit(max(sys.getrecursionlimit(), 20000))
    n = acc = 0
    bad = []
    for s in chunk:
        n += 1
        try:
            r = classify(s, True)
            if r is None:
                r = classify(StrSub(s), True)
                if r is not None:
                    r = ("str-subclass:" + r[0], r[1])
        except RecursionError:
            r = ("harness-recursion", "")
        if ref_parse(s) is not None:
            acc += 1
        if r is not None and r[0] != "harness-recursion" and len(bad) < 20:
            bad.append((s, "magnitude:" + r[0], r[1], None))
    return n, acc, bad, None


def tasks_for(alphabet, maxlen, public_maxlen, split=3):
    out = []
    for L in range(0, maxlen + 1):
        k = min(L, split)
        for pre in itertools.product(alphabet, repeat=k):
            out.append((alphabet, tuple(pre), L, L <= public_maxlen))
    return out


def selfcheck_reference():
    cases = {
        "foo": ("foo", ()),
        "foo<bar>": ("foo", (("bar", ()),)),
        "foo<bar<baz>>": ("foo", (("bar", (("baz", ()),)),)),
        "m<a,s<b>>": ("m", (("a", ()), ("s", (("b", ()),)))),
        "m<s<b>,a>": ("m", (("s", (("b", ()),)), ("a", ()))),
    }
    for s, t in cases.items():
        assert ref_parse(s) == t, s
        assert ref_print(t) == s
    for s in ["", "<", ">", ",", "a<", "a>", "a<>", "a<b>c", "a<b>>", "a,b",
              "a<b,>", "a<,b>", "<a>", "a<b><c>", "a<b>,", "a<<b>>"]:
        assert ref_parse(s) is None, s


def run(ctx):
    selfcheck_reference()
    if ctx.tier == "quick":
        plans = [(("a", "<", ">", ","), 12, 8), (("a", " ", "é", "<", ">", ","), 8, 6)]
    else:
        plans = [(("a", "<", ">", ","), 14, 10), (("a", "b", " ", "é", "\n", "<", ">", ","), 8, 6)]
    # token-level enumeration: names that coincide with built-in codec names
    # must be treated like any other name (the grammar knows no keywords)
    tok = ("a", "bool", "string", "<", ">", ",")
    plans = plans + [(tok, 7 if ctx.tier == "quick" else 8, 6)]
    # characters that are special to string formatting, regular expressions
    # and glob patterns are ordinary name characters for the grammar
    plans = plans + [
        (("a", "%", "<", ">", ","), 7 if ctx.tier == "quick" else 9, 7),
        (("%s", "{0}", "\\", "*", "[", "<", ">", ","),
         5 if ctx.tier == "quick" else 6, 5)]
    tasks = []
    for alpha, maxlen, pub in plans:
        tasks += tasks_for(alpha, maxlen, pub)
    ctx.rng.shuffle(tasks)
    # longest first for load balance, seed-permuted among equals
    tasks.sort(key=lambda t: -(len(t[0]) ** (t[2] - len(t[1]))))
    total = accepted = 0
    bad_all = []
    samples = []
    done_tasks = 0
    capped = False
    for n, acc, bad, sample in common.pmap(work, tasks, chunksize=1):
        total += n
        accepted += acc
        bad_all += bad
        done_tasks += 1
        if sample and len(samples) < 6:
            samples.append(sample)
        if ctx.out_of_time():
            capped = True
            break
    mags = magnitude_strings()
    n_mag = 0
    for n, acc, bad, _ in common.pmap(
            work_magnitude, [mags[i::32] for i in range(32)], chunksize=1):
        total += n
        n_mag += n
        accepted += acc
        bad_all += bad
    # report shortest counterexample per kind, after a determinism re-check
    bad_all.sort(key=lambda b: (len(b[0]), b[0]))
    seen = set()
    for s, kind, detail, task in bad_all:
        if kind in seen:
            continue
        if task is not None:
            # state-dependent: reproduce by replaying the same batch of calls
            # in this (fresh) process
            again = {(x[0], x[1]) for x in work(task)[2]}
            if (s, kind) not in again:
                ctx.unreproduced.append([s, kind])
                continue
        else:
            again = [classify(s, True) for _ in range(3)]
            kinds = {a[0] if a else None for a in again}
            if kind.replace("magnitude:", "").replace(
                    "str-subclass:", "") not in kinds and not (
                    "str-subclass:" in kind and classify(StrSub(s), True)):
                ctx.unreproduced.append([s, kind])
                continue
        seen.add(kind)
        ctx.violation(
            "C15/" + kind,
            {"scenario": "parse_type", "input": s, "kind": kind,
             "detail": detail, "expected": repr(ref_parse(s)),
             "after_batch": None if task is None else
             {"alphabet": list(task[0]), "prefix": list(task[1]),
              "length": task[2]}},
        )
    rejected_samples = ["a<b>c", "a<b>>", "a<,b>"]
    cov = {
        "evaluations": total,
        "distinct_nontrivial": accepted,
        "rule": "every string over each alphabet up to the length bound is "
        "generated exactly once (all distinct); a case is counted "
        "non-trivial when the reference grammar accepts it (tree comparison "
        "exercised); all others exercise the rejection path",
        "alphabets": [
            {"alphabet": list(a), "max_len": m, "public_path_max_len": p}
            for a, m, p in plans
        ],
        "magnitude_strings": n_mag,
        "magnitude_rule": "flat tuples / variants with 1..39, 63..65, 100, "
        "255..257, 1000 fields, nesting depth 1..39, 64, 100, 200, names of "
        "2^0..2^13 characters, the sanctioned AuxData schemas; each also with "
        "one delimiter dropped / doubled / swapped",
        "accepted_strings": accepted,
        "rejected_strings": total - accepted,
        "tasks_done": done_tasks,
        "tasks_total": len(tasks),
        "exhaustive": not capped,
        "samples": samples + rejected_samples,
    }
    return ctx.finish(
        "exploration",
        cov,
        [
            "reference recogniser mc/checks/c15.py:ref_parse written from the "
            "grammar in the property statement",
            "nesting depth / sibling count beyond the interpreter recursion "
            "limit is outside the bound",
        ],
    )


def replay(doc):
    s = doc["input"]
    ab = doc.get("after_batch")
    if ab:
        bad = work((tuple(ab["alphabet"]), tuple(ab["prefix"]), ab["length"],
                    False))[2]
        hit = [b for b in bad if b[0] == s]
        print("after batch %r: %r" % (ab, hit[:2]))
        return 1 if hit else 0
    r = classify(s, True)
    print("input=%r reference=%r result=%r" % (s, ref_parse(s), r))
    return 1 if r else 0
