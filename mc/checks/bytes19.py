"""C19 - interval byte storage and block views: explicit-state exploration of
size / initialized_size / contents histories against a (size, bytes) model,
with block views, addresses and save/load probed in every state."""

import io
import itertools
import uuid as uuidlib

from .. import explore

BASE = b"\x01\x02\x03\x04"
SIZES = range(0, 5)
ADDRS = (None, 0, 5)
BLOCK_DOM = (0, 1, 3, 6)
PROBES = range(-1, 11)


def U(k):
    return uuidlib.UUID(int=0x3000 + k)


class World:
    pass


class BytesScenario(explore.Scenario):
    name = "bytes"
    skip_class_names = ("LazyIntervalTree",)

    def __init__(self, max_size=4):
        self.max_size = max_size

    def initial_states(self):
        return ["empty", "full", "bss", "loaded"]

    def build(self, init):
        import gtirb as g

        w = World()
        w.g = g
        ir = g.IR(uuid=U(0))
        m = g.Module(name="m", uuid=U(1), ir=ir)
        s = g.Section(name="s", uuid=U(2), module=m)
        if init == "empty":
            size, data = 0, b""
        elif init == "bss":
            size, data = len(BASE), b""
        else:
            size, data = len(BASE), BASE
        # B and its neighbour B2 are built from ONE caller-owned bytearray:
        # nothing done to B may show in B2 (or in the caller's object)
        shared = bytearray(data)
        b = g.ByteInterval(address=5, size=size, contents=shared, uuid=U(3),
                           section=s)
        b2 = g.ByteInterval(address=50, size=max(size, len(data)),
                            contents=shared, uuid=U(6), section=s)
        w.shared = shared
        w.data2 = bytes(data)
        k1 = g.CodeBlock(size=1, offset=0, uuid=U(4), byte_interval=b)
        k2 = g.DataBlock(size=3, offset=1, uuid=U(5), byte_interval=b)
        w.objs = {"I": ir, "M": m, "S": s, "B": b, "K1": k1, "K2": k2,
                  "B2": b2}
        w.size = size
        w.data = bytes(data)
        if init == "loaded":
            self.reload(w)
        return w

    def reload(self, w):
        buf = io.BytesIO()
        w.objs["I"].save_protobuf_file(buf)
        ir = w.g.IR.load_protobuf_file(io.BytesIO(buf.getvalue()))
        m = ir.modules[0]
        s = next(iter(m.sections))
        ivs = {x.uuid: x for x in s.byte_intervals}
        b = ivs[U(3)]
        blocks = {x.uuid: x for x in b.blocks}
        w.objs = {"I": ir, "M": m, "S": s, "B": b, "K1": blocks[U(4)],
                  "K2": blocks[U(5)], "B2": ivs[U(6)]}

    def ops(self, w):
        out = []
        for n in range(0, self.max_size + 1):
            out.append(["size", n])
        for n in range(0, w.size + 1):
            out.append(["isize", n])
        for n in range(0, w.size + 1):
            out.append(["replace", n])
        for n in (0, 2, w.size):
            if n <= w.size:
                out.append(["replace_bytes", n])
        # contents may have been assigned as an immutable bytes object; then
        # only rebinding edits are legal Python
        mutable = not isinstance(w.objs["B"].contents, bytes)
        if mutable:
            for i in range(len(w.data)):
                out.append(["poke", i])
        if len(w.data) < w.size:
            if mutable:
                out.append(["append"])
            out.append(["iadd2"])
        if w.data and mutable:
            out.append(["dellast"])
            out.append(["delfirst"])
        out.append(["save_load"])
        out.append(["read_views"])
        return out

    def ctor_ops(self):
        out = []
        for size in (None, 0, 1, 2, 4):
            for init in (None, 0, 1, 2, 3, 5):
                for n in (0, 1, 2, 3, 4):
                    out.append(["ctor", size, init, n])
        return out

    def prefix_ok(self, op):
        return op[0] != "ctor"

    def apply(self, w, op):
        b = w.objs["B"]
        v = []
        kind = op[0]
        if kind == "ctor":
            return self.apply_ctor(w, op)
        exc = None
        try:
            if kind == "size":
                b.size = op[1]
                w.size = op[1]
                w.data = w.data[:op[1]]
            elif kind == "isize":
                b.initialized_size = op[1]
                n = op[1]
                w.data = (w.data + b"\0" * n)[:n]
            elif kind == "replace":
                b.contents = bytearray(BASE[:op[1]])
                w.data = BASE[:op[1]]
            elif kind == "replace_bytes":
                b.contents = bytes(BASE[:op[1]])
                w.data = BASE[:op[1]]
            elif kind == "poke":
                b.contents[op[1]] = 0xAA
                w.data = w.data[:op[1]] + b"\xaa" + w.data[op[1] + 1:]
            elif kind == "append":
                b.contents.append(9)
                w.data = w.data + b"\x09"
            elif kind == "iadd2":
                b.contents += b"\x07"
                w.data = w.data + b"\x07"
            elif kind == "dellast":
                del b.contents[-1]
                w.data = w.data[:-1]
            elif kind == "delfirst":
                del b.contents[0]
                w.data = w.data[1:]
            elif kind == "save_load":
                self.reload(w)
            elif kind == "read_views":
                # an observation as an operation: reading the block views may
                # plant a cache that a later byte edit must invalidate
                for name in ("K1", "K2"):
                    k = w.objs[name]
                    bytes(k.contents), k.address, k.contains_offset(0)
                b.initialized_size, len(b.contents)
            else:
                raise ValueError(kind)
        except Exception as e:  # noqa
            exc = type(e).__name__
        if exc is not None:
            v.append(("C19/op-raises:%s:%s" % (kind, exc),
                      "%s raised %s" % (op, exc)))
        return v

    def apply_ctor(self, w, op):
        g = w.g
        _, size, init, n = op
        data = BASE[:n]
        kw = {}
        if size is not None:
            kw["size"] = size
        if init is not None:
            kw["initialized_size"] = init
        eff_size = n if size is None else size
        eff_init = n if init is None else init
        want_exc = "ValueError" if eff_init > eff_size else None
        exc = None
        try:
            b = g.ByteInterval(contents=data, **kw)
        except Exception as e:  # noqa
            exc = type(e).__name__
        v = []
        if exc != want_exc:
            v.append(("C19/ctor-exception:expected=%s:got=%s" % (want_exc, exc),
                      "ByteInterval(contents=%d bytes, %s)" % (n, kw)))
            return v
        if exc is None:
            want = (data + b"\0" * eff_init)[:eff_init]
            if (b.size != eff_size or bytes(b.contents) != want
                    or b.initialized_size != len(want)):
                v.append(("C19/ctor-state",
                          "ByteInterval(contents=%d bytes, %s): size %r "
                          "contents %r initialized_size %r; expected %r %r"
                          % (n, kw, b.size, bytes(b.contents),
                             b.initialized_size, eff_size, want)))
        return v

    def check(self, w):
        v = []
        b = w.objs["B"]
        # --- storage invariants
        if b.size != w.size:
            v.append(("C19/size", "size %r expected %r" % (b.size, w.size)))
        if bytes(b.contents) != w.data:
            v.append(("C19/contents-%s" % (
                "longer-than-size" if len(b.contents) > b.size else "differ"),
                "contents %r expected %r (size %r)"
                % (bytes(b.contents), w.data, b.size)))
        if b.initialized_size != len(b.contents):
            v.append(("C19/initialized_size",
                      "%r vs %d stored" % (b.initialized_size, len(b.contents))))
        if len(b.contents) > b.size:
            v.append(("C19/stored-exceeds-size",
                      "%d stored, size %d" % (len(b.contents), b.size)))
        # --- frame: the neighbouring interval and the caller's buffer
        b2 = w.objs["B2"]
        if bytes(b2.contents) != w.data2 or len(b2.contents) > b2.size:
            v.append(("C19/neighbour-interval-bytes-changed",
                      "B2 holds %r (size %r), expected %r"
                      % (bytes(b2.contents), b2.size, w.data2)))
        if bytes(w.shared) != w.data2:
            v.append(("C19/constructor-argument-mutated",
                      "caller's bytearray is now %r" % bytes(w.shared)))
        # --- save / load back
        try:
            buf = io.BytesIO()
            w.objs["I"].save_protobuf_file(buf)
            ir2 = w.g.IR.load_protobuf_file(io.BytesIO(buf.getvalue()))
            b2 = [x for x in next(iter(ir2.modules[0].sections)).byte_intervals
                  if x.uuid == b.uuid][0]
            if (b2.size, bytes(b2.contents), b2.address) != (
                    b.size, bytes(b.contents), b.address):
                v.append(("C19/save-load-differs",
                          "%r -> %r" % ((b.size, bytes(b.contents)),
                                        (b2.size, bytes(b2.contents)))))
        except Exception as e:  # noqa
            v.append(("C19/save-load-raises:" + type(e).__name__,
                      "size %r stored %r: %r" % (b.size, bytes(b.contents), e)))
        # --- block views, over all offsets/sizes/addresses (probes)
        data = bytes(b.contents)
        old_addr = b.address
        for name in ("K1", "K2"):
            k = w.objs[name]
            o0, s0 = k.offset, k.size
            if bytes(k.contents) != data[o0:o0 + s0]:
                v.append(("C19/block-contents-stale",
                          "%s (offset %d size %d) shows %r, interval holds %r"
                          % (name, o0, s0, bytes(k.contents), data[o0:o0 + s0])))
            for off, size in itertools.product(BLOCK_DOM, BLOCK_DOM):
                k.offset = off
                k.size = size
                if bytes(k.contents) != data[off:off + size]:
                    v.append(("C19/block-contents",
                              "%s off %d size %d: %r vs %r"
                              % (name, off, size, bytes(k.contents),
                                 data[off:off + size])))
                for a in ADDRS:
                    b.address = a
                    want_addr = None if a is None else a + off
                    if k.address != want_addr:
                        v.append(("C19/block-address", "%s %r" % (name, a)))
                    for p in PROBES:
                        co = off <= p < off + size
                        if k.contains_offset(p) != co:
                            v.append(("C19/contains_offset",
                                      "%s off %d size %d probe %d"
                                      % (name, off, size, p)))
                        ca = a is not None and (a + off <= p < a + off + size)
                        if k.contains_address(p) != ca:
                            v.append(("C19/contains_address",
                                      "%s addr %r off %d size %d probe %d"
                                      % (name, a, off, size, p)))
            k.offset, k.size = o0, s0
        b.address = old_addr
        # detached block
        if w.g.CodeBlock(size=2, offset=1).contents != b"" or \
                w.g.CodeBlock(size=2, offset=1).address is not None or \
                w.g.CodeBlock(size=2, offset=1).contains_address(1):
            v.append(("C19/detached-block-view", ""))
        return v[:6]

    def objs(self, w):
        return w.objs



FILE_CASES = [(d, n, a) for d in (0, 1, 2, 3, 5, 256)
              for n in (0, 1, 2, 3, 4, 257) for a in (True, False)]


def file_case(case):
    """One interval record with the given declared size, stored length and
    address presence, written with the schema's own message class and loaded
    by the API.  Returns [(signature, detail)]."""
    import gtirb as g
    from gtirb.proto import IR_pb2

    dsize, stored, has_addr = case
    seed_ir = g.IR()
    g.ByteInterval(
        address=0x10, size=8, contents=b"\x01\x02",
        section=g.Section(name="s", module=g.Module(name="m", ir=seed_ir)))
    buf = io.BytesIO()
    seed_ir.save_protobuf_file(buf)
    head, body = buf.getvalue()[:8], buf.getvalue()[8:]
    msg = IR_pb2.IR()
    msg.ParseFromString(body)
    pbi = msg.modules[0].sections[0].byte_intervals[0]
    pbi.size = dsize
    pbi.contents = bytes((i % 251) + 1 for i in range(stored))
    pbi.has_address = has_addr
    data = head + msg.SerializeToString()
    what = "file declares size %d, stores %d bytes, %s address" % (
        dsize, stored, "with" if has_addr else "without")
    try:
        ir2 = g.IR.load_protobuf_file(io.BytesIO(data))
    except Exception as e:  # noqa
        if stored <= dsize:
            return [("C19/load-rejects-valid-interval:" + type(e).__name__,
                     what)]
        return []
    bi2 = next(iter(ir2.byte_intervals))
    got = "%s: loaded with size %r, %d stored" % (what, bi2.size,
                                                  len(bi2.contents))
    if stored > dsize:
        return [("C19/load-accepts-more-stored-bytes-than-size", got)]
    if (bi2.size, bytes(bi2.contents), bi2.initialized_size) != (
            dsize, bytes(pbi.contents), stored):
        return [("C19/loaded-interval-differs-from-file", got)]
    return []


def run(ctx):
    sc = BytesScenario(4 if ctx.tier == "quick" else 5)
    global BASE
    if ctx.tier != "quick":
        BASE = b"\x01\x02\x03\x04\x05"
    cov = explore.explore(ctx, sc)
    # constructor argument combinations do not depend on the state
    w0 = sc.build("empty")
    n_ctor = 0
    for op in sc.ctor_ops():
        n_ctor += 1
        for sig, detail in sc.apply_ctor(w0, op):
            ctx.violation(sig, {"scenario": "bytes", "init": "empty",
                                "history": [], "op": op, "detail": detail})
    # growth amounts around powers of two (chunked padding), once
    import gtirb as g

    n_big = 0
    amounts = sorted({(1 << k) + d for k in range(0, 23, 1) for d in (-1, 0, 1)}
                     | {3 << 20, (1 << 21) + (1 << 20)})
    for base in (0, 1, 8):
        for amt in amounts:
            if amt <= 0:
                continue
            n_big += 1
            bi = g.ByteInterval(size=1 << 26, contents=b"\x01" * base)
            bi.initialized_size = base + amt
            ok = (bi.initialized_size == base + amt
                  and len(bi.contents) == base + amt
                  and bytes(bi.contents[:base]) == b"\x01" * base
                  and not any(bi.contents[base:]))
            bi.initialized_size = base
            ok = ok and bytes(bi.contents) == b"\x01" * base
            if not ok:
                ctx.violation("C19/initialized_size-large-growth",
                              {"scenario": "bytes", "init": "empty",
                               "history": [], "op": None,
                               "detail": "%d stored bytes, initialized_size = "
                               "%d + %d" % (base, base, amt)})
                break
    # files, whoever wrote them: every (declared size, stored length, address
    # presence) of a small domain; more stored bytes than the size must be
    # rejected, everything else loads with exactly the declared values
    n_files = 0
    seen_sigs = set()
    for case in FILE_CASES:
        n_files += 1
        for sig, detail in file_case(case):
            if sig not in seen_sigs:
                seen_sigs.add(sig)
                ctx.violation(sig, {"scenario": "interval-file",
                                    "file_case": list(case), "detail": detail})
    cov["interval_files"] = n_files
    cov["transitions"] += n_files
    cov["traces_validated_against_impl"] += n_files
    cov["large_growth_cases"] = n_big
    cov["transitions"] += n_big
    cov["traces_validated_against_impl"] += n_big
    cov["constructor_cases"] = n_ctor
    cov["transitions"] += n_ctor
    cov["traces_validated_against_impl"] += n_ctor
    cov["bound"] = ("fix-point over interval sizes 0..%d and all contents "
                    "reachable by the alphabet" % sc.max_size)
    cov["probes_per_state"] = ("2 blocks x 16 (offset,size) x 3 addresses x 12 "
                               "probe points + save/load")
    return ctx.finish(
        "model_checking", cov,
        ["model: (size, stored bytes) pair in mc/checks/bytes19.py",
         "block offset/size and interval address are probed in every state "
         "rather than being part of the state (block views are pure functions "
         "of them)"])


def replay(doc):
    if doc.get("scenario") == "interval-file":
        v = file_case(tuple(doc["file_case"]))
        for s_, d_ in v:
            print(s_, "--", d_)
        hit = any(s_ == doc["signature"] for s_, _ in v)
        print("file case %s: %s" % (doc["file_case"],
                                    "reproduced" if hit else "NOT reproduced"))
        return 1 if hit else 0
    sc = BytesScenario(5)
    w = sc.build(doc["init"])
    for op in doc["history"]:
        sc.apply(w, op)
    v = []
    if doc.get("op") is not None:
        v += sc.apply(w, doc["op"])
    v += sc.check(w)
    for s, d in v:
        print(s, "--", d)
    hit = any(s == doc["signature"] for s, _ in v)
    print("init=%s history=%s op=%s: %s" % (
        doc["init"], doc["history"], doc.get("op"),
        "reproduced" if hit else "NOT reproduced"))
    return 1 if hit else 0
