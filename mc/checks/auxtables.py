"""C14 - AuxData tables are never silently lost, staled or rewritten.

For every table of a catalogue (known / unknown / partially unknown types,
canonical and non-canonical encodings, IR and module level) and every
sequence of per-generation actions {leave, read, read+mutate in place, assign
data, assign type_name (with/without a prior read)} over 1-3 save/load
generations, the bytes and type name written by save are compared with a
model: untouched => byte-identical; type with an unknown name => bytes
unchanged even after a read; otherwise => the reference encoding of the
current value under the current type name."""

import io
import itertools
import uuid as uuidlib

from .. import common, irgen, refcodec as R


def U(k):
    return uuidlib.UUID(int=0xC000 + k)


def u64(n):
    return R.u64(n)


def catalogue():
    """list of dicts: name, type, bytes, kind, and for known types the
    decoded reference value"""
    T = []

    def known(name, t, value, raw=None, mutate=None, retag=None):
        tt = R.parse(t)
        canon = R.encode(value, tt)
        T.append({"name": name, "type": t, "bytes": canon if raw is None else raw,
                  "value": value, "kind": "known", "mutate": mutate,
                  "retag": retag, "canonical": raw is None or raw == canon})

    def unknown(name, t, raw, reached):
        T.append({"name": name, "type": t, "bytes": raw, "kind": "unknown",
                  "reached": reached})

    known("str", "string", "héllo\0")
    known("seq8", "sequence<uint8_t>", [1, 2, 3], mutate="append",
          retag="sequence<uint64_t>")
    known("seqstr", "sequence<string>", ["a", "é"], mutate="append-str")
    known("set16", "set<uint16_t>", frozenset([5, 6]), mutate="add")
    known("map", "mapping<string,uint64_t>", {"k": 1}, mutate="setitem")
    known("addr", "Addr", 0x1122334455667788, retag="uint64_t")
    known("i8", "int8_t", -3, retag="int64_t")
    known("tupmut", "tuple<sequence<int64_t>,string>", ([1, 2], "x"),
          mutate="tuple-inner-append")
    known("tupmap", "tuple<mapping<uint8_t,string>,uint8_t>", ({1: "a"}, 2),
          mutate="tuple-inner-setitem")
    known("var", "variant<uint8_t,sequence<string>>",
          ("Variant", 1, ["p"]), mutate="variant-inner-append")
    known("nested", "mapping<string,sequence<uint8_t>>", {"a": [1]},
          mutate="map-inner-append")
    known("uuidseq", "sequence<UUID>", [U(1), U(2)], mutate="append-uuid")
    known("offmap", "mapping<Offset,uint8_t>", {("Offset", U(1), 7): 1},
          mutate="setitem-offset")
    known("empty", "sequence<string>", [], mutate="append-str")
    known("bool", "bool", True)
    known("flt", "float", 1.5)
    # tables of realistic size (thousands of entries, negative values)
    known("big-seq", "sequence<int64_t>",
          [(-1) ** i * i * 7919 for i in range(1500)], mutate="append")
    known("big-seq16", "sequence<int16_t>",
          [(-1) ** i * (i % 30000) for i in range(1025)], mutate="append")
    known("big-set", "set<uint16_t>", frozenset(range(100, 1400)),
          mutate="add")
    known("big-map", "mapping<string,uint64_t>",
          {"k%d" % i: i for i in range(1100)}, mutate="setitem")
    known("big-nested", "mapping<string,sequence<uint8_t>>",
          {"a": [i % 251 for i in range(2100)], "b": []},
          mutate="map-inner-append")
    # non-canonical but decodable encodings
    known("set-dup", "set<uint8_t>", frozenset([7]),
          raw=u64(2) + b"\x07\x07", mutate="add8")
    known("map-dupkey", "mapping<uint8_t,uint8_t>", {1: 3},
          raw=u64(2) + b"\x01\x02\x01\x03", mutate="setitem8")
    known("bool2", "bool", True, raw=b"\x02")
    known("tup-setdup", "tuple<set<uint8_t>,uint8_t>", (frozenset([7]), 1),
          raw=u64(2) + b"\x07\x07\x01")
    # wholly unknown
    unknown("unk", "foo", b"\x01\x02\x03", True)
    unknown("unk-empty", "my_custom<thing,other>", b"", True)
    # partially unknown, unknown part reached by the bytes
    unknown("p1", "sequence<foo>", u64(1) + b"\xaa\xbb", True)
    unknown("p2", "mapping<string,foo>", u64(1) + u64(1) + b"k" + b"\x99", True)
    unknown("p3", "tuple<uint8_t,sequence<mapping<string,foo>>>",
            b"\x05" + u64(1) + u64(1) + u64(1) + b"z" + b"\x00\x01", True)
    unknown("p4", "tuple<set<uint8_t>,foo>", u64(2) + b"\x07\x07" + b"\xee",
            True)
    # partially unknown, unknown part NOT reached (empty container / other
    # variant alternative); known part non-canonical so a re-encode would show
    unknown("n1", "tuple<set<uint8_t>,sequence<foo>>",
            u64(2) + b"\x07\x07" + u64(0), False)
    unknown("n2", "variant<set<uint8_t>,foo>", u64(0) + u64(2) + b"\x09\x09",
            False)
    unknown("n3", "mapping<uint8_t,sequence<sequence<foo>>>",
            u64(2) + b"\x01" + u64(0) + b"\x01" + u64(0), False)
    unknown("n4", "sequence<foo>", u64(0), False)
    unknown("n5", "tuple<bool,set<foo>>", b"\x02" + u64(0), False)
    # the unknown name at every sibling position next to parametrised
    # siblings, never reached by the bytes; the known part is non-canonical
    unknown("n6", "tuple<set<uint8_t>,mapping<foo,sequence<uint8_t>>>",
            u64(2) + b"\x07\x07" + u64(0), False)
    unknown("n7", "tuple<set<uint8_t>,mapping<sequence<uint8_t>,foo>>",
            u64(2) + b"\x07\x07" + u64(0), False)
    unknown("n8", "variant<set<uint8_t>,tuple<foo,sequence<uint8_t>,bar>>",
            u64(0) + u64(2) + b"\x09\x09", False)
    unknown("n9", "tuple<set<uint8_t>,sequence<tuple<sequence<uint8_t>,foo,"
            "set<uint8_t>>>>", u64(2) + b"\x07\x07" + u64(0), False)
    unknown("n10", "mapping<tuple<foo,sequence<uint8_t>>,set<uint8_t>>",
            u64(0), False)
    unknown("n11", "tuple<bool,variant<sequence<uint8_t>,foo,set<uint8_t>>>",
            b"\x02" + u64(2) + u64(2) + b"\x05\x05", False)
    return T


ACTIONS_KNOWN = ["leave", "read", "read-mutate", "read-save-mutate", "assign",
                 "assign-after-read", "assign-alt-shape",
                 "retag", "read-retag", "retag-same", "read-twice"]
ACTIONS_UNKNOWN = ["leave", "read", "read-twice", "reattach"]


def actions_for(entry):
    if entry["kind"] == "unknown":
        return ACTIONS_UNKNOWN
    out = ["leave", "read", "assign", "assign-after-read", "retag-same",
           "read-twice", "reattach"]
    if R.parse(entry["type"])[0] in ("sequence", "set", "tuple"):
        out.append("assign-alt-shape")
    if entry.get("mutate"):
        out.append("read-mutate")
        out.append("read-save-mutate")
    if entry.get("retag"):
        out += ["retag", "read-retag"]
    return out


def to_impl(g, v, t):
    return irgen.aux_to_impl(g, {}, t, v, False)


def ref_of(g, x, t):
    """implementation value -> reference value (nodes as UUIDs)"""
    nm, subs = t
    if nm == "UUID":
        return x.uuid if isinstance(x, g.Node) else x
    if nm == "Offset":
        e = x.element_id
        return ("Offset", e.uuid if isinstance(e, g.Node) else e,
                x.displacement)
    if nm == "sequence":
        return [ref_of(g, y, subs[0]) for y in x]
    if nm == "set":
        return frozenset(ref_of(g, y, subs[0]) for y in x)
    if nm == "mapping":
        return {ref_of(g, k, subs[0]): ref_of(g, y, subs[1])
                for k, y in x.items()}
    if nm == "tuple":
        return tuple(ref_of(g, y, s) for y, s in zip(x, subs))
    if nm == "variant":
        return ("Variant", x.index, ref_of(g, x.val, subs[x.index]))
    return x


def mutate(g, how, data):
    if how == "append":
        data.append(9)
    elif how == "append-str":
        data.append("zé")
    elif how == "add":
        data.add(77)
    elif how == "add8":
        data.add(8)
    elif how == "setitem":
        data["new"] = 2
    elif how == "setitem8":
        data[9] = 9
    elif how == "tuple-inner-append":
        data[0].append(3)
    elif how == "tuple-inner-setitem":
        data[0][7] = "q"
    elif how == "variant-inner-append":
        data.val.append("r")
    elif how == "map-inner-append":
        data["a"].append(2)
    elif how == "append-uuid":
        data.append(U(53))
    elif how == "setitem-offset":
        data[g.Offset(element_id=U(52), displacement=0)] = 2
    else:
        raise ValueError(how)


def new_value(entry, gen):
    """value for 'assign'"""
    t = R.parse(entry["type"])
    v = entry["value"]
    nm = t[0]
    if nm == "string":
        return "assigned-%d-é" % gen
    if nm in R.INTS:
        return (v + gen + 1) if nm != "int8_t" else -5 - gen
    if nm == "bool":
        return False
    if nm == "float":
        return 2.5 + gen
    if nm == "sequence":
        return list(v)[:1]
    if nm == "set":
        return frozenset(list(v) + [11 + gen])
    if nm == "mapping":
        if entry["name"] in ("nested", "big-nested"):
            return {"a": [gen]}
        return {}
    if nm == "tuple":
        return v
    if nm == "variant":
        return ("Variant", 1, ["n%d" % gen])
    return v


def codec_override_after_use():
    """`Serialization.codecs` is a documented extension point: overriding a
    codec takes effect for the next encode, also for type names the
    serializer has already seen."""
    import gtirb as g
    import gtirb.serialization as ser_mod

    out = []
    glob = g.AuxData.serializer
    stock = glob.codecs["string"]

    class Latin1(ser_mod.Codec):
        @staticmethod
        def decode(raw_bytes, *, serialization=None, subtypes=(),
                   get_by_uuid=None):
            n = int.from_bytes(raw_bytes.read(8), "little")
            return raw_bytes.read(n).decode("latin-1")

        @staticmethod
        def encode(out_, item, *, serialization=None, subtypes=()):
            b = item.encode("latin-1")
            out_.write(len(b).to_bytes(8, "little"))
            out_.write(b)

    try:
        ir = g.IR(uuid=U(300))
        ir.aux_data["names"] = g.AuxData(["caf\u00e9"], "sequence<string>")
        buf = io.BytesIO()
        ir.save_protobuf_file(buf)                      # type seen (encode)
        ir2 = g.IR.load_protobuf_file(io.BytesIO(buf.getvalue()))
        ir2.aux_data["names"].data                      # type seen (decode)
        glob.codecs["string"] = Latin1
        ir2.aux_data["names"].data.append("na\u00efve")
        buf2 = io.BytesIO()
        ir2.save_protobuf_file(buf2)
        from gtirb.proto import IR_pb2

        m = IR_pb2.IR()
        m.ParseFromString(buf2.getvalue()[8:])
        got = bytes(m.aux_data["names"].data)
        want = (u64(2) + u64(4) + "caf\u00e9".encode("latin-1")
                + u64(5) + "na\u00efve".encode("latin-1"))
        if got != want:
            out.append(("C14/edited-table-written-with-a-replaced-codec",
                        "codec for 'string' overridden after the type was "
                        "used: wrote %s, current codec gives %s"
                        % (got.hex(), want.hex())))
        glob.codecs["string"] = stock
        ir2.aux_data["names"].data.append("x")
        buf3 = io.BytesIO()
        ir2.save_protobuf_file(buf3)
        m.ParseFromString(buf3.getvalue()[8:])
        want3 = R.encode(["caf\u00e9", "na\u00efve", "x"],
                         R.parse("sequence<string>"))
        if bytes(m.aux_data["names"].data) != want3:
            out.append(("C14/edited-table-written-with-a-replaced-codec",
                        "stock codec restored, table still written with the "
                        "override"))
    except Exception as e:  # noqa
        import traceback

        out.append(("C14/codec-override-raises:%s" % type(e).__name__,
                    traceback.format_exc()[-300:]))
    finally:
        glob.codecs["string"] = stock
    return out


def run_history(entry, where, history):
    """Returns list of (signature, detail).  history: tuple of actions, one
    per generation."""
    import gtirb as g

    out = []
    name = entry["name"]
    # generation 0: a file produced by another writer (descriptor message)
    from gtirb.proto import IR_pb2
    from gtirb.version import PROTOBUF_VERSION as PV

    msg = IR_pb2.IR()
    msg.uuid = U(100).bytes
    msg.version = PV
    pm = msg.modules.add()
    pm.uuid = U(1).bytes
    pm.name = "m"
    ps = pm.sections.add()
    ps.uuid = U(2).bytes
    if where == "bare-module":
        # a second module that has no sections (a stub of proxies / symbols)
        pm = msg.modules.add()
        pm.uuid = U(3).bytes
        pm.name = "stub"
    cont = msg if where == "ir" else pm
    cont.aux_data[name].type_name = entry["type"]
    cont.aux_data[name].data = entry["bytes"]
    cont.aux_data["other"].type_name = "uint8_t"
    cont.aux_data["other"].data = b"\x01"
    data = irgen.file_bytes(msg, PV)
    cur_type = entry["type"]
    cur_bytes = entry["bytes"]
    tag = "%s:%s" % (entry["kind"] if entry["kind"] == "unknown"
                     else ("known" if entry["canonical"] else "noncanonical"),
                     "+".join(history))
    for gen, act in enumerate(history):
        try:
            ir = g.IR.load_protobuf_file(io.BytesIO(data))
        except Exception as e:  # noqa
            out.append(("C14/load-raises:%s" % type(e).__name__,
                        "%s gen %d: %r" % (name, gen, e)))
            return out
        mu = U(3) if where == "bare-module" else U(1)
        c = ir if where == "ir" else [m_ for m_ in ir.modules
                                      if m_.uuid == mu][0]
        if name not in c.aux_data:
            out.append(("C14/table-lost", "%s gen %d" % (name, gen)))
            return out
        aux = c.aux_data[name]
        if aux.type_name != cur_type:
            out.append(("C14/type-name-changed-by-load",
                        "%s: %r vs %r" % (name, aux.type_name, cur_type)))
        # model: expected bytes after this generation's save
        want_type = cur_type
        want_bytes = cur_bytes
        try:
            if act == "reattach":
                # an edit elsewhere in the IR (the module list) is no reason to
                # touch a table nobody read: bytes must stay as loaded
                m0 = ir.modules[0]
                other_ir = g.IR(uuid=U(101))
                other_ir.modules.append(m0)
                ir.modules.append(m0)
                m0.ir = None
                m0.ir = ir
            elif entry["kind"] == "unknown":
                if act in ("read", "read-twice"):
                    d = aux.data
                    if act == "read-twice":
                        d = aux.data
                    # what .data is for such a table is not prescribed;
                    # only the bytes written by save are (below)
                    del d
            else:
                t = R.parse(cur_type)
                if act == "leave":
                    pass
                elif act in ("read", "read-twice"):
                    d = aux.data
                    if act == "read-twice":
                        d = aux.data
                    want_bytes = R.encode(ref_of(g, d, t), t)
                    ref = R.decode(cur_bytes, t)
                    if R.freeze(ref_of(g, d, t)) != R.freeze(ref):
                        out.append(("C14/decoded-value-wrong",
                                    "%s: %r" % (name, d)))
                    want_bytes = R.encode(ref, t)
                elif act == "read-mutate":
                    d = aux.data
                    mutate(g, entry["mutate"], d)
                    want_bytes = None  # computed from the value below
                elif act == "read-save-mutate":
                    # an intermediate save between taking the value and
                    # editing it in place through the held reference
                    d = aux.data
                    ir.save_protobuf_file(io.BytesIO())
                    mutate(g, entry["mutate"], d)
                    want_bytes = None
                elif act in ("assign", "assign-after-read", "assign-alt-shape"):
                    if act == "assign-after-read":
                        aux.data
                    nv = new_value(entry, gen)
                    iv_ = to_impl(g, nv, t)
                    if act == "assign-alt-shape":
                        # an equal value in another legal Python shape
                        if isinstance(iv_, list) and all(
                                type(x) is int and 0 <= x < 256 for x in iv_):
                            iv_ = bytes(iv_) if gen % 2 else bytearray(iv_)
                        elif isinstance(iv_, list):
                            iv_ = tuple(iv_)
                        elif isinstance(iv_, tuple):
                            iv_ = list(iv_)
                        elif isinstance(iv_, set):
                            iv_ = frozenset(iv_)
                    aux.data = iv_
                    want_bytes = R.encode(nv, t)
                elif act in ("retag", "read-retag"):
                    if act == "read-retag":
                        aux.data
                    ref = R.decode(cur_bytes, t)
                    aux.type_name = entry["retag"] if cur_type == entry["type"] \
                        else entry["type"]
                    want_type = aux.type_name
                    want_bytes = R.encode(ref, R.parse(want_type))
                elif act == "retag-same":
                    aux.type_name = str(cur_type)
                else:
                    raise ValueError(act)
                if want_bytes is None:
                    want_bytes = "from-value"
        except Exception as e:  # noqa
            import traceback

            out.append(("C14/action-raises:%s:%s" % (act, type(e).__name__),
                        "%s gen %d: %s" % (name, gen,
                                           traceback.format_exc()[-300:])))
            return out
        try:
            buf = io.BytesIO()
            ir.save_protobuf_file(buf)
            data = buf.getvalue()
        except Exception as e:  # noqa
            out.append(("C14/save-raises:%s:%s" % (act, type(e).__name__),
                        "%s gen %d (%s): %r" % (name, gen, tag, e)))
            return out
        m2 = IR_pb2.IR()
        m2.ParseFromString(data[8:])
        c2 = m2 if where == "ir" else [m_ for m_ in m2.modules
                                       if m_.uuid == mu.bytes][0]
        if name not in c2.aux_data:
            out.append(("C14/table-lost-by-save", "%s gen %d" % (name, gen)))
            return out
        got_type = c2.aux_data[name].type_name
        got_bytes = bytes(c2.aux_data[name].data)
        if got_type != want_type:
            out.append(("C14/type-name-written:%s" % act,
                        "%s: wrote %r, current %r" % (name, got_type,
                                                      want_type)))
        if want_bytes == "from-value":
            tt = R.parse(want_type)
            want_bytes = R.encode(ref_of(g, aux._data if False else aux.data,
                                         tt), tt)
        ok = got_bytes == want_bytes
        if not ok and entry["kind"] == "known":
            # sets / mappings may be written in any element order
            try:
                tt = R.parse(want_type)
                ok = (len(got_bytes) == len(want_bytes)
                      and R.freeze(R.decode(got_bytes, tt))
                      == R.freeze(R.decode(want_bytes, tt))
                      and sorted(got_bytes) == sorted(want_bytes))
            except R.RefError:
                ok = False
        if not ok:
            kind = ("stale-bytes" if got_bytes == cur_bytes and act != "leave"
                    else "rewritten" if act == "leave" or
                    entry["kind"] == "unknown" else "wrong-bytes")
            out.append(("C14/%s:%s:%s" % (kind, act, tag.split(":")[0]),
                        "%s (%s) gen %d %s: wrote %s, expected %s, loaded %s"
                        % (name, cur_type, gen, act, got_bytes.hex(),
                           want_bytes.hex(), cur_bytes.hex())))
            return out
        if bytes(c2.aux_data["other"].data) != b"\x01":
            out.append(("C14/unrelated-table-changed", name))
        cur_type, cur_bytes = got_type, got_bytes
    return out


def work(task):
    ei, where, gens = task
    entry = catalogue()[ei]
    acts = actions_for(entry)
    n = 0
    bad = []
    from . import codec

    for hi, hist in enumerate(itertools.product(acts, repeat=gens)):
        if hi % 10 == 0:
            # an earlier FAILED save / encode in the same process must not
            # leak into the tables written next
            codec.poison()
        n += 1
        try:
            res = run_history(entry, where, hist)
        except Exception as e:  # noqa  (e.g. the written bytes cannot even
            # be read back by the reference decoder)
            import traceback

            res = [("C14/written-table-unreadable:%s" % type(e).__name__,
                    traceback.format_exc()[-300:])]
        for sig, detail in res:
            if len(bad) < 20:
                bad.append((sig, detail, entry["name"], where, list(hist)))
    return n, bad


def run(ctx):
    cat = catalogue()
    max_gen = 3 if ctx.tier == "quick" else 4
    tasks = []
    for ei in range(len(cat)):
        for where in ("ir", "module", "bare-module"):
            for gens in range(1, max_gen + 1):
                if where == "bare-module" and gens > 2:
                    continue
                tasks.append((ei, where, gens))
    ctx.rng.shuffle(tasks)
    n = 0
    bad = []
    for k, b in common.pmap(work, tasks, chunksize=1):
        n += k
        bad += b
    best = {}
    for sig, detail, name, where, hist in bad:
        old = best.get(sig)
        if old is None or len(hist) < len(old[3]):
            best[sig] = (detail, name, where, hist)
    for sig, (detail, name, where, hist) in sorted(best.items()):
        ctx.violation(sig, {"scenario": "auxtables", "table": name,
                            "where": where, "history": hist, "detail": detail})
    for sig, detail in codec_override_after_use():
        ctx.violation(sig, {"scenario": "auxtables", "table": "<override>",
                            "where": "ir", "history": [], "detail": detail})
    cov = {
        "states": len(cat) * 2,
        "transitions": n,
        "traces_validated_against_impl": n,
        "tables": len(cat),
        "tables_known": sum(1 for e in cat if e["kind"] == "known"),
        "tables_unknown_or_partial": sum(1 for e in cat if e["kind"] == "unknown"),
        "generations": max_gen,
        "exhaustive": True,
        "bound": "every action sequence over 1..%d save/load generations for "
        "every table of the catalogue at IR and module level" % max_gen,
        "samples": [{"table": "tupmut", "history": ["read-mutate", "leave"]},
                    {"table": "n1", "history": ["read", "read-twice"]},
                    {"table": "seq8", "history": ["retag", "read-retag"]}],
    }
    return ctx.finish(
        "model_checking", cov,
        ["a state is (table, bytes held, type name) after a generation; a "
         "transition is one load + action + save on the real code",
         "expected bytes from mc/refcodec.py; generation 0 files are built "
         "with the descriptor classes, not by gtirb's writer"])


def replay(doc):
    if doc["table"] == "<override>":
        v = codec_override_after_use()
        for s_, d in v:
            print(s_, "--", d)
        hit = any(s_ == doc["signature"] for s_, _ in v)
        print("reproduced" if hit else "NOT reproduced")
        return 1 if hit else 0
    entry = [e for e in catalogue() if e["name"] == doc["table"]][0]
    v = run_history(entry, doc["where"], tuple(doc["history"]))
    for s, d in v:
        print(s, "--", d)
    hit = any(s == doc["signature"] for s, _ in v)
    print("reproduced" if hit else "NOT reproduced")
    return 1 if hit else 0
