"""Scenario "forest": containment and UUID lookup (C03, C04) and the
list/set refinement part of C16, by explicit-state exploration of the real
collection wrappers against a dict-based forest model."""

import io
import itertools
import operator
import uuid as uuidlib

from .. import common, explore

PARENT_KIND = {"M": "I", "S": "M", "Y": "M", "P": "M", "B": "S", "K": "B", "D": "B"}
PATTR = {
    "M": "ir", "S": "module", "Y": "module", "P": "module", "B": "section",
    "K": "byte_interval", "D": "byte_interval",
}
# parent kind -> list of (field, element kinds)
FIELDS = {
    "I": [("modules", "M")],
    "M": [("sections", "S"), ("symbols", "Y"), ("proxies", "P")],
    "S": [("byte_intervals", "B")],
    "B": [("blocks", "KD")],
}
FIELD_OF = {"M": "modules", "S": "sections", "Y": "symbols", "P": "proxies",
            "B": "byte_intervals", "K": "blocks", "D": "blocks"}


def U(k):
    return uuidlib.UUID(int=0x1000 + k)


FOREIGN_UUID = uuidlib.UUID(int=0xDEAD)


class Forest:
    """The reference model: parent pointers + module order."""

    def __init__(self, kind):
        self.kind = kind
        self.parent = {n: None for n in kind if kind[n] != "I"}
        self.mods = {n: [] for n in kind if kind[n] == "I"}

    def copy(self):
        f = Forest.__new__(Forest)
        f.kind = self.kind
        f.parent = dict(self.parent)
        f.mods = {k: list(v) for k, v in self.mods.items()}
        return f

    def key(self):
        return (tuple(sorted(self.parent.items(), key=lambda kv: kv[0])),
                tuple(sorted((k, tuple(v)) for k, v in self.mods.items())))

    def children(self, p, kinds):
        if self.kind[p] == "I" and kinds == "M":
            return list(self.mods[p])
        return sorted(n for n, q in self.parent.items()
                      if q == p and self.kind[n] in kinds)

    def detach(self, n):
        p = self.parent[n]
        if p is not None and self.kind[n] == "M":
            self.mods[p].remove(n)
        self.parent[n] = None

    def attach(self, n, p):
        if self.parent[n] == p and self.kind[n] != "M":
            return
        self.detach(n)
        self.parent[n] = p
        if self.kind[n] == "M":
            self.mods[p].append(n)

    def set_mods(self, ir, new):
        old = self.mods[ir]
        for m in old:
            if m not in new:
                self.parent[m] = None
        for m in new:
            q = self.parent[m]
            if q is not None and q != ir:
                self.mods[q].remove(m)
            self.parent[m] = ir
        self.mods[ir] = list(new)

    def subtree(self, n):
        out = [n]
        for m, q in self.parent.items():
            if q == n:
                out += self.subtree(m)
        return out

    def root_ir(self, n):
        while n is not None and self.kind[n] != "I":
            n = self.parent[n]
        return n

    def ancestor(self, n, kind):
        n = self.parent.get(n)
        while n is not None and self.kind[n] != kind:
            n = self.parent.get(n)
        return n


class World:
    def __init__(self, g):
        self.g = g
        self.objs = {}
        self.kind = {}
        self.uuid = {}
        self.model = None

    def add(self, name, kind, obj):
        self.objs[name] = obj
        self.kind[name] = kind
        self.uuid[name] = obj.uuid

    def finish(self):
        self.model = Forest(self.kind)

    def name_of(self, obj):
        if obj is None:
            return None
        for n, o in self.objs.items():
            if o is obj:
                return n
        return "?%s" % type(obj).__name__


def make_node(g, kind, k):
    u = U(k)
    if kind == "I":
        return g.IR(uuid=u)
    if kind == "M":
        return g.Module(name="m%d" % k, uuid=u)
    if kind == "S":
        return g.Section(name="s%d" % k, uuid=u)
    if kind == "Y":
        return g.Symbol("y%d" % k, uuid=u)
    if kind == "P":
        return g.ProxyBlock(uuid=u)
    if kind == "B":
        return g.ByteInterval(address=0x10 * k, size=4, uuid=u)
    if kind == "K":
        return g.CodeBlock(size=1, offset=0, uuid=u)
    if kind == "D":
        return g.DataBlock(size=1, offset=1, uuid=u)
    raise ValueError(kind)


# pool specs: list of (name, kind)
POOLS = {
    "q": [("I1", "I"), ("I2", "I"), ("M1", "M"), ("M2", "M"), ("S1", "S"),
          ("B1", "B"), ("K1", "K"), ("Y1", "Y"), ("P1", "P")],
    "tA": [("I1", "I"), ("I2", "I"), ("M1", "M"), ("M2", "M"), ("S1", "S"),
           ("S2", "S"), ("B1", "B"), ("B2", "B"), ("K1", "K"), ("Y1", "Y"),
           ("P1", "P")],
    "tB": [("I1", "I"), ("I2", "I"), ("M1", "M"), ("M2", "M"), ("S1", "S"),
           ("S2", "S"), ("B1", "B"), ("K1", "K"), ("D1", "D"), ("Y1", "Y"),
           ("P1", "P")],
    # lower levels with siblings: two sections, two intervals, code + data
    "q2": [("I1", "I"), ("M1", "M"), ("S1", "S"), ("S2", "S"), ("B1", "B"),
           ("B2", "B"), ("K1", "K"), ("D1", "D")],
    # three modules, two IRs, one section: list index arithmetic
    "m3": [("I1", "I"), ("I2", "I"), ("M1", "M"), ("M2", "M"), ("M3", "M"),
           ("S1", "S")],
    "tiny": [("I1", "I"), ("M1", "M"), ("M2", "M"), ("S1", "S"), ("B1", "B"),
             ("K1", "K"), ("Y1", "Y"), ("P1", "P")],
}

CHAIN = [("M1", "I1"), ("S1", "M1"), ("Y1", "M1"), ("P1", "M1"), ("B1", "S1"),
         ("K1", "B1"), ("D1", "B1")]


def names_by_kind(w, kinds):
    return sorted(n for n, k in w.kind.items() if k in kinds)


def impl_attach(w, child, parent):
    setattr(w.objs[child], PATTR[w.kind[child]],
            None if parent is None else w.objs[parent])


def save_load_ir(w, ir_name):
    """save ir, load it, and rebind the world's names under that IR (as the
    model sees them) to the loaded objects, located by public iteration."""
    g = w.g
    buf = io.BytesIO()
    w.objs[ir_name].save_protobuf_file(buf)
    new = g.IR.load_protobuf_file(io.BytesIO(buf.getvalue()))
    under = [n for n in w.model.parent if w.model.root_ir(n) == ir_name]
    by_uuid = {w.uuid[n]: n for n in under}
    by_uuid[w.uuid[ir_name]] = ir_name
    found = {}

    def visit(o):
        n = by_uuid.get(o.uuid)
        if n is not None:
            found[n] = o

    visit(new)
    for m in new.modules:
        visit(m)
        for s in m.sections:
            visit(s)
            for b in s.byte_intervals:
                visit(b)
                for k in b.blocks:
                    visit(k)
        for y in m.symbols:
            visit(y)
        for p in m.proxies:
            visit(p)
    for n, o in found.items():
        w.objs[n] = o
    return sorted(set(under + [ir_name]) - set(found))


class ForestScenario(explore.Scenario):
    name = "forest"
    skip_class_names = ("LazyIntervalTree",)

    def __init__(self, pool, inits, props, c16_probes=False, ctor_ops=True,
                 attr_ops=True, idx_wide=True, save_load_prefix=True,
                 live_ops=True):
        self.pool = pool
        self.inits = inits
        self.props = props
        self.c16_probes = c16_probes
        self.ctor_ops = ctor_ops
        self.attr_ops = attr_ops
        self.idx_wide = idx_wide
        self.live_ops = live_ops
        # Operands that fail part-way (an element that is no node, a
        # generator that raises, a non-iterable second operand) are OUTSIDE
        # the quantifier of C16 ("arguments drawn from members, non-members
        # and nodes owned elsewhere"); on the unchanged tree some of them do
        # leave a half-applied bulk operation behind.  Off by default; kept
        # for experiments (MC_FAILING_OPERANDS=1).
        import os as _os
        self.failing_operands = bool(_os.environ.get("MC_FAILING_OPERANDS"))
        self.save_load_prefix = save_load_prefix

    # ------------------------------------------------------------ building
    def initial_states(self):
        return list(self.inits)

    def build(self, init):
        import gtirb as g

        w = World(g)
        spec = POOLS[self.pool]
        for i, (name, kind) in enumerate(spec):
            w.add(name, kind, make_node(g, kind, i))
        w.finish()
        w.twins = False
        if init in ("chain", "loaded", "twins"):
            for c, p in CHAIN:
                if c in w.objs and p in w.objs:
                    impl_attach(w, c, p)
                    w.model.attach(c, p)
        if init == "loaded":
            save_load_ir(w, "I1")
        if init == "twins":
            buf = io.BytesIO()
            w.objs["I1"].save_protobuf_file(buf)
            save_load_ir(w, "I1")
            # second load under twin names
            under = [n for n in w.model.parent
                     if w.model.root_ir(n) == "I1"] + ["I1"]
            w2 = World(g)
            new = g.IR.load_protobuf_file(io.BytesIO(buf.getvalue()))
            tw = {}

            def visit(o):
                for n in under:
                    if w.uuid[n] == o.uuid:
                        tw[n] = o

            visit(new)
            for m in new.modules:
                visit(m)
                for s in m.sections:
                    visit(s)
                    for b in s.byte_intervals:
                        visit(b)
                        for k in b.blocks:
                            visit(k)
                for y in m.symbols:
                    visit(y)
                for p in m.proxies:
                    visit(p)
            old_model = w.model
            for n in sorted(tw):
                w.add(n + "t", w.kind[n], tw[n])
            w.finish()
            for n, p in old_model.parent.items():
                if p is not None:
                    w.model.attach(n, p)
            for n in tw:
                if n != "I1" and old_model.parent[n] is not None:
                    w.model.attach(n + "t", old_model.parent[n] + "t")
            w.twins = True
            del w2
        return w

    # ----------------------------------------------------------------- ops
    def ops(self, w):
        out = []
        K = w.kind
        # parent setters
        for c in sorted(K):
            if K[c] == "I":
                continue
            for p in names_by_kind(w, PARENT_KIND[K[c]]) + [None]:
                out.append(["setp", c, p])
        # set operations
        for owner in sorted(K):
            for field, ek in FIELDS.get(K[owner], ()):
                if field == "modules":
                    continue
                elems = names_by_kind(w, ek)
                for x in elems:
                    for m in ("add", "discard", "remove"):
                        out.append(["set", owner, field, m, x])
                    out.append(["set", owner, field, "update", [[x]]])
                out.append(["set", owner, field, "pop", None])
                out.append(["set", owner, field, "clear", None])
                subsets = [[]] + [[x] for x in elems] + [
                    list(p) for p in itertools.combinations(elems, 2)
                ]
                for ss in subsets:
                    for m in ("ior", "isub", "ixor", "iand"):
                        out.append(["set", owner, field, m, ss])
                    if ss:
                        # same operators with a Set that is not a built-in set
                        out.append(["set", owner, field, "ior_fs", ss])
                        out.append(["set", owner, field, "ixor_fs", ss])
                if elems and self.live_ops:
                    # one-shot iterators as arguments
                    out.append(["set", owner, field, "update_gen", [elems[:2]]])
                    # bulk operations whose operand fails part-way: an
                    # ill-typed element, a generator that raises, a second
                    # operand that is not iterable
                    if self.failing_operands:
                        for x in elems[:2]:
                            for m in ("update_badelem", "update_raise",
                                      "update_noniter", "ior_badelem"):
                                out.append(["set", owner, field, m, x])
                if len(elems) >= 2:
                    out.append(["set", owner, field, "update",
                                [[elems[0]], [elems[1]]]])
                    out.append(["set", owner, field, "update", [elems[:2]]])
                else:
                    out.append(["set", owner, field, "update",
                                [[elems[0]], [elems[0]]]] if elems else
                               ["set", owner, field, "update", [[], []]])
                out.append(["set", owner, field, "update", []])
                # operands that are themselves live owning collections (of
                # this or of another parent): adding moves elements out of
                # the very collection that is being iterated
                if self.live_ops:
                    for src in names_by_kind(w, K[owner]):
                        lv = {"live": src}
                        out.append(["set", owner, field, "update", [lv]])
                        for m in ("ior", "ixor", "isub", "iand"):
                            out.append(["set", owner, field, m, lv])
                    others = [x for x in names_by_kind(w, K[owner])
                              if x != owner]
                    if others and elems:
                        out.append(["set", owner, field, "update",
                                    [{"live": others[0]}, [elems[0]]]])
        # module-list operations
        mods = names_by_kind(w, "M")
        lists = [[]] + [[m] for m in mods] + [list(p) for p in
                                              itertools.permutations(mods, 2)]
        lists += [[mods[0], mods[0]]] if mods else []
        for ir in names_by_kind(w, "I"):
            n = len(w.model.mods[ir])
            idx = sorted({0, 1, n, -1, -(n + 1)})
            for m in mods:
                out.append(["mods", ir, "append", m])
                out.append(["mods", ir, "remove", m])
                for i in idx:
                    out.append(["mods", ir, "insert", i, m])
                    out.append(["mods", ir, "setitem", i, m])
            for L in lists:
                out.append(["mods", ir, "extend", L])
                out.append(["mods", ir, "iadd", L])
                slices = ((0, 1), (0, 2), (1, 2), (0, 0), (1, 1), (None, None))
                exts = ((0, None, 2), (None, None, -1))
                if not self.idx_wide:
                    slices = ((0, 1), (1, 2), (None, None))
                    exts = ((0, None, 2),)
                for (a, b) in slices:
                    out.append(["mods", ir, "setslice", a, b, L])
                for (a, b, c) in exts:
                    out.append(["mods", ir, "setext", a, b, c, L])
            if self.live_ops:
                # a live iterator across a mutation (worklist loops): the
                # built-in list iterator follows the current contents
                for m in mods:
                    if m not in w.model.mods[ir]:
                        out.append(["mods", ir, "iter_append", m])
                        out.append(["mods", ir, "iter_insert0", m])
                        if n:
                            out.append(["mods", ir, "iter_setitem", n - 1, m])
            if self.live_ops and mods:
                for m in (mods[:2] if self.failing_operands else ()):
                    out.append(["mods", ir, "extend_badelem", m])
                    out.append(["mods", ir, "extend_raise", m])
                    out.append(["mods", ir, "setslice_badelem", m])
                out.append(["mods", ir, "extend_gen", mods[:2]])
                out.append(["mods", ir, "setslice_gen", 0, 1, mods[:2]])
            if self.live_ops:
                for src in names_by_kind(w, "I"):
                    lv = {"live": src}
                    out.append(["mods", ir, "extend", lv])
                    out.append(["mods", ir, "iadd", lv])
                    out.append(["mods", ir, "setslice", None, None, lv])
                    out.append(["mods", ir, "setslice", 0, 1, lv])
            for i in idx:
                out.append(["mods", ir, "delitem", i])
                out.append(["mods", ir, "pop", i])
            out.append(["mods", ir, "pop", None])
            for (a, b) in ((0, 1), (0, 2), (1, 2), (None, None)):
                out.append(["mods", ir, "delslice", a, b])
            out.append(["mods", ir, "delext", None, None, 2])
            out.append(["mods", ir, "clear"])
            out.append(["mods", ir, "reverse"])
            out.append(["save_load", ir])
        out.append(["observe"])
        for ir in names_by_kind(w, "I"):
            pass
        if self.attr_ops:
            for n in sorted(K):
                out.append(["attr", n])
        if self.ctor_ops:
            for kind in "IMSYPBKD":
                for variant in self.ctor_variants(w, kind):
                    out.append(["ctor", kind, variant])
        if w.twins:
            out = [op for op in out if self.uuid_safe(w, op)]
        return out

    def ctor_variants(self, w, kind):
        out = self.ctor_variants0(w, kind)
        if self.live_ops:
            # children given as the live collection of an existing parent
            for field, ek in FIELDS.get(kind, ()):
                for src in names_by_kind(w, kind):
                    out.append({field: {"live": src}})
            if kind == "M":
                for src in names_by_kind(w, "M"):
                    out.append({f: {"live": src} for f, _ in FIELDS["M"]})
        return out

    def ctor_variants0(self, w, kind):
        if kind == "I":
            ms = names_by_kind(w, "M")
            return [{"modules": L} for L in ([], ms[:1], ms[:2], ms[:1] * 2)]
        if kind == "M":
            out = []
            for ir in names_by_kind(w, "I") + [None]:
                out.append({"ir": ir})
            out.append({
                "ir": names_by_kind(w, "I")[0],
                "sections": names_by_kind(w, "S"),
                "symbols": names_by_kind(w, "Y"),
                "proxies": names_by_kind(w, "P"),
            })
            out.append({"ir": None, "sections": names_by_kind(w, "S")[:1]})
            return out
        if kind == "S":
            out = [{"module": m} for m in names_by_kind(w, "M")]
            out.append({"module": None, "byte_intervals": names_by_kind(w, "B")})
            out.append({"module": names_by_kind(w, "M")[0],
                        "byte_intervals": names_by_kind(w, "B")[:1]})
            return out
        if kind in "YP":
            return [{"module": m} for m in names_by_kind(w, "M")]
        if kind == "B":
            out = [{"section": s} for s in names_by_kind(w, "S")]
            out.append({"section": None, "blocks": names_by_kind(w, "KD")})
            out.append({"section": names_by_kind(w, "S")[0],
                        "blocks": names_by_kind(w, "KD")[:1]})
            return out
        if kind in "KD":
            return [{"byte_interval": b} for b in names_by_kind(w, "B")]
        return []

    def prefix_ok(self, op):
        if op[0] in ("attr", "ctor"):
            return False
        if op[0] == "save_load" and not self.save_load_prefix:
            return False
        if op[0] == "set" and op[3] == "pop":
            return False
        return True

    def uuid_safe(self, w, op):
        """twins scenario: only fire ops that keep UUIDs distinct per IR."""
        if op[0] in ("attr", "save_load", "observe"):
            return True
        if op[0] == "ctor":
            return False
        if op[0] in ("set", "mods") and str(
                op[3] if op[0] == "set" else op[2]).endswith(
                    ("_badelem", "_raise", "_noniter")):
            return False  # which prefix is applied is not prescribed
        f = w.model.copy()
        try:
            self.model_apply(w, f, op, None, dry=True)
        except Exception:
            return True
        # UUIDs must be distinct per IR before and after the call.  Set
        # operations over several elements are sequences of element-wise
        # adds/discards in an unspecified order, so for them distinctness must
        # also hold for the union of what an IR holds before and after (no
        # intermediate step may see two attached nodes with one UUID); list
        # item/slice assignment replaces atomically.
        transient = op[0] == "set"
        for ir in f.mods:
            seen = set()
            nodes = set(f.subtree(ir))
            if transient:
                nodes |= set(w.model.subtree(ir))
            for n in nodes:
                u = w.uuid[n]
                if u in seen:
                    return False
                seen.add(u)
        return True

    # --------------------------------------------------------------- model
    def model_apply(self, w, f, op, impl_result, dry=False):
        """Mutates forest f.  Returns expectation dict:
        {'exc': name or None, 'ret': ('none'|'member'|'value', v),
         'accept': callable or None}"""
        kind = op[0]
        if kind == "setp":
            _, c, p = op
            if p is None:
                f.detach(c)
            else:
                f.attach(c, p)
            return {"exc": None, "ret": ("none", None)}
        if kind == "set":
            _, owner, field, m, arg = op
            ek = dict(FIELDS[w.kind[owner]])[field]
            cur = set(f.children(owner, ek))
            if m in ("update_badelem", "update_raise", "update_noniter",
                     "ior_badelem"):
                return {"exc": "ANY"}
            if isinstance(arg, dict):
                arg = sorted(f.children(arg["live"], ek))
            elif m == "update":
                arg = [sorted(f.children(it["live"], ek))
                       if isinstance(it, dict) else it for it in arg]
            if m == "add":
                f.attach(arg, owner)
            elif m == "discard":
                if arg in cur:
                    f.detach(arg)
            elif m == "remove":
                if arg not in cur:
                    return {"exc": "KeyError"}
                f.detach(arg)
            elif m == "pop":
                if not cur:
                    return {"exc": "KeyError"}
                if dry:
                    return {"exc": None}
                if impl_result in cur:
                    f.detach(impl_result)
                return {"exc": None, "ret": ("member", sorted(cur))}
            elif m == "clear":
                for x in cur:
                    f.detach(x)
            elif m in ("update", "update_gen"):
                for it in arg:
                    for x in it:
                        f.attach(x, owner)
            elif m in ("ior", "ior_fs"):
                for x in arg:
                    f.attach(x, owner)
                return {"exc": None, "ret": ("self", None)}
            elif m == "ixor_fs":
                for x in arg:
                    if x in cur:
                        f.detach(x)
                    else:
                        f.attach(x, owner)
                return {"exc": None, "ret": ("self", None)}
            elif m == "isub":
                for x in arg:
                    if x in cur:
                        f.detach(x)
                return {"exc": None, "ret": ("self", None)}
            elif m == "ixor":
                for x in arg:
                    if x in cur:
                        f.detach(x)
                    else:
                        f.attach(x, owner)
                return {"exc": None, "ret": ("self", None)}
            elif m == "iand":
                for x in cur - set(arg):
                    f.detach(x)
                return {"exc": None, "ret": ("self", None)}
            else:
                raise ValueError(m)
            return {"exc": None, "ret": ("none", None)}
        if kind == "mods":
            ir, m = op[1], op[2]
            cur = list(f.mods[ir])
            sh = list(cur)
            ret = ("none", None)
            op = [list(f.mods[a["live"]]) if isinstance(a, dict) else a
                  for a in op]
            if m in ("extend_badelem", "extend_raise", "setslice_badelem"):
                return {"exc": "ANY"}
            try:
                if m == "append":
                    sh.append(op[3])
                elif m == "remove":
                    sh.remove(op[3])
                elif m == "insert":
                    sh.insert(op[3], op[4])
                elif m == "setitem":
                    sh[op[3]] = op[4]
                elif m in ("iter_append", "iter_insert0", "iter_setitem"):
                    it = iter(sh)
                    seen_ = [next(it, None)]
                    if m == "iter_append":
                        sh.append(op[3])
                    elif m == "iter_insert0":
                        sh.insert(0, op[3])
                    else:
                        sh[op[3]] = op[4]
                    seen_ += list(it)
                    ret = ("seq", seen_)
                elif m in ("extend", "extend_gen"):
                    sh.extend(op[3])
                elif m == "iadd":
                    sh += op[3]
                    ret = ("self", None)
                elif m in ("setslice", "setslice_gen"):
                    sh[op[3]:op[4]] = op[5]
                elif m == "setext":
                    sh[op[3]:op[4]:op[5]] = op[6]
                elif m == "delitem":
                    del sh[op[3]]
                elif m == "pop":
                    r = sh.pop() if op[3] is None else sh.pop(op[3])
                    ret = ("value", r)
                elif m == "delslice":
                    del sh[op[3]:op[4]]
                elif m == "delext":
                    del sh[op[3]:op[4]:op[5]]
                elif m == "clear":
                    sh.clear()
                elif m == "reverse":
                    sh.reverse()
                else:
                    raise ValueError(m)
            except (IndexError, ValueError) as e:
                if type(e) is ValueError and m not in (
                    "remove", "setext"
                ):
                    raise
                return {"exc": type(e).__name__}
            # acceptable finals: dup-free subsequences of sh with the same set
            def accept(final, sh=sh):
                if len(set(final)) != len(final) or set(final) != set(sh):
                    return False
                it = iter(sh)
                return all(any(x == y for y in it) for x in final)

            dedup = []
            for x in sh:
                if x not in dedup:
                    dedup.append(x)
            if dry or impl_result is None or not accept(impl_result):
                f.set_mods(ir, dedup)
            else:
                f.set_mods(ir, list(impl_result))
            return {"exc": None, "ret": ret, "accept": accept, "builtin": sh}
        if kind == "save_load":
            return {"exc": None, "ret": ("none", None)}
        raise ValueError(op)

    # ---------------------------------------------------------------- impl
    def impl_apply(self, w, op):
        """Executes op on the real objects; returns (result, exc_name)."""
        O = w.objs
        kind = op[0]
        try:
            if kind == "setp":
                impl_attach(w, op[1], op[2])
                return None, None
            if kind == "set":
                _, owner, field, m, arg = op
                s = getattr(O[owner], field)
                if m in ("add", "discard", "remove"):
                    return getattr(s, m)(O[arg]), None
                if m == "pop":
                    return s.pop(), None
                if m == "clear":
                    return s.clear(), None
                if m in ("update_badelem", "ior_badelem", "update_raise",
                         "update_noniter"):
                    def boom():
                        yield O[arg]
                        raise RuntimeError("operand failed")

                    if m == "update_badelem":
                        return s.update([O[arg], None]), None
                    if m == "ior_badelem":
                        return operator.ior(s, {O[arg], None}), None
                    if m == "update_raise":
                        return s.update([O[arg]], boom()), None
                    return s.update([O[arg]], 5), None
                if m == "update_gen":
                    return s.update(*[(O[x] for x in it) for it in arg]), None
                if m == "update":
                    return s.update(*[
                        getattr(O[it["live"]], field) if isinstance(it, dict)
                        else [O[x] for x in it] for it in arg]), None
                if isinstance(arg, dict):
                    other = getattr(O[arg["live"]], field)
                else:
                    other = {O[x] for x in arg}
                if m.endswith("_fs"):
                    other = frozenset(other)
                fn = {"ior": operator.ior, "isub": operator.isub,
                      "ixor": operator.ixor, "iand": operator.iand,
                      "ior_fs": operator.ior, "ixor_fs": operator.ixor}[m]
                r = fn(s, other)
                # like `x.attr |= y`: the attribute is rebound to the result
                if r is not s and isinstance(r, (set, frozenset)):
                    pass
                return ("self" if r is s else "not-self:%s" % type(r).__name__), None
            if kind == "mods":
                L = O[op[1]].modules
                m = op[2]

                def objs(a):
                    if isinstance(a, dict):
                        return O[a["live"]].modules
                    return [O[x] for x in a]

                if m == "append":
                    return L.append(O[op[3]]), None
                if m == "remove":
                    return L.remove(O[op[3]]), None
                if m == "insert":
                    return L.insert(op[3], O[op[4]]), None
                if m == "setitem":
                    L[op[3]] = O[op[4]]
                    return None, None
                if m in ("iter_append", "iter_insert0", "iter_setitem"):
                    it = iter(L)
                    seen_ = [next(it, None)]
                    if m == "iter_append":
                        L.append(O[op[3]])
                    elif m == "iter_insert0":
                        L.insert(0, O[op[3]])
                    else:
                        L[op[3]] = O[op[4]]
                    seen_ += list(it)
                    return [w.name_of(x) for x in seen_], None
                if m == "extend_badelem":
                    return L.extend([O[op[3]], None]), None
                if m == "setslice_badelem":
                    L[0:0] = [O[op[3]], None]
                    return None, None
                if m == "extend_raise":
                    def boom2():
                        yield O[op[3]]
                        raise RuntimeError("operand failed")

                    return L.extend(boom2()), None
                if m == "extend":
                    return L.extend(objs(op[3])), None
                if m == "extend_gen":
                    return L.extend(O[x] for x in op[3]), None
                if m == "setslice_gen":
                    L[op[3]:op[4]] = (O[x] for x in op[5])
                    return None, None
                if m == "iadd":
                    r = operator.iadd(L, objs(op[3]))
                    return ("self" if r is L else r), None
                if m == "setslice":
                    L[op[3]:op[4]] = objs(op[5])
                    return None, None
                if m == "setext":
                    L[op[3]:op[4]:op[5]] = [O[x] for x in op[6]]
                    return None, None
                if m == "delitem":
                    del L[op[3]]
                    return None, None
                if m == "pop":
                    return (L.pop() if op[3] is None else L.pop(op[3])), None
                if m == "delslice":
                    del L[op[3]:op[4]]
                    return None, None
                if m == "delext":
                    del L[op[3]:op[4]:op[5]]
                    return None, None
                if m == "clear":
                    return L.clear(), None
                if m == "reverse":
                    return L.reverse(), None
            if kind == "save_load":
                missing = save_load_ir(w, op[1])
                return (missing or None), None
        except Exception as e:  # noqa
            return None, type(e).__name__
        raise ValueError(op)

    # ------------------------------------------------------------- extract
    def extract(self, w):
        """Reads the public structure from both ends.
        Returns (forest-from-parents, problems)."""
        problems = []
        f = Forest(w.kind)
        O = w.objs
        from_parent = {}
        for p in sorted(O):
            for field, ek in FIELDS.get(w.kind[p], ()):
                seq = list(getattr(O[p], field))
                names = [w.name_of(o) for o in seq]
                if len(set(names)) != len(names):
                    problems.append(("dup-in-collection",
                                     "%s.%s=%s" % (p, field, names)))
                for n in names:
                    if n in from_parent and from_parent[n] != p:
                        problems.append(("two-parents", "%s in %s and %s"
                                         % (n, from_parent[n], p)))
                    from_parent[n] = p
                if field == "modules":
                    f.mods[p] = [n for n in dict.fromkeys(names)
                                 if n in w.kind]
        for c in sorted(O):
            if w.kind[c] == "I":
                continue
            po = getattr(O[c], PATTR[w.kind[c]])
            pn = w.name_of(po)
            if pn is not None and pn not in w.kind:
                problems.append(("foreign-parent", "%s -> %s" % (c, pn)))
                pn = None
            f.parent[c] = pn
            if pn != from_parent.get(c):
                problems.append((
                    "ends-disagree",
                    "%s.%s is %s but collections say %s"
                    % (c, PATTR[w.kind[c]], pn, from_parent.get(c)),
                ))
        for n in from_parent:
            if n not in w.kind:
                problems.append(("foreign-member", "%s in %s" % (n, from_parent[n])))
        return f, problems

    def attr_snapshot(self, w):
        snap = {}
        for n, o in w.objs.items():
            k = w.kind[n]
            d = {"uuid": o.uuid}
            if k in "MS":
                d["name"] = o.name
            if k == "S":
                d["flags"] = frozenset(o.flags)
            if k in "IM":
                d["aux"] = tuple(sorted(o.aux_data))
            if k == "M":
                d["m"] = (o.binary_path, o.isa, o.file_format, o.byte_order,
                          o.preferred_addr, o.rebase_delta,
                          w.name_of(o.entry_point))
            if k == "I":
                d["v"] = (o.version, len(o.cfg))
            if k == "Y":
                d["y"] = (o.name, o.value, w.name_of(o.referent), o.at_end)
            if k == "B":
                d["b"] = (o.address, o.size, bytes(o.contents),
                          tuple(o.symbolic_expressions))
            if k in "KD":
                d["k"] = (o.offset, o.size)
            if k == "K":
                d["dm"] = o.decode_mode
            snap[n] = d
        return snap

    # --------------------------------------------------------------- apply
    def materialise(self, init, history):
        """Replay without the per-step oracle work (every step of a stored
        history was already checked when it was first executed)."""
        w = self.build(init)
        for op in history:
            if op[0] == "observe":
                self.apply(w, op)
                continue
            res, exc = self.impl_apply(w, op)
            impl_final = None
            if op[0] == "mods":
                impl_final = [w.name_of(o) for o in w.objs[op[1]].modules]
            exp = self.model_apply(w, w.model, op, impl_final)
            if exc is not None or exp["exc"] is not None:
                f, problems = self.extract(w)
                w.model.parent = dict(f.parent)
                w.model.mods = {k: list(x) for k, x in f.mods.items()}
        return w

    def apply(self, w, op):
        w.cache_extract = None
        if op[0] == "observe":
            # observations as an operation: lookups and aggregate iterators
            # may plant hidden caches that later edits must invalidate
            for n, o in w.objs.items():
                if w.kind[n] == "I":
                    for u in w.uuid.values():
                        o.get_by_uuid(u)
                    list(o.byte_blocks), list(o.cfg_nodes), list(o.symbols)
                elif w.kind[n] == "M":
                    list(o.byte_blocks), list(o.cfg_nodes)
                if w.kind[n] != "I":
                    o.ir
            return []
        if op[0] == "attr":
            return self.apply_attr(w, op)
        if op[0] == "ctor":
            return self.apply_ctor(w, op)
        v = []
        before_attrs = self.attr_snapshot(w)
        before_model = w.model.copy()
        res, exc = self.impl_apply(w, op)
        impl_final = None
        if op[0] == "mods":
            impl_final = [w.name_of(o) for o in w.objs[op[1]].modules]
        if op[0] == "set" and op[3] == "pop" and exc is None:
            res = w.name_of(res)
        exp = self.model_apply(w, w.model, op,
                               impl_final if op[0] == "mods" else res)
        tag = "%s.%s" % (op[0], op[3] if op[0] == "set" else
                         (op[2] if op[0] == "mods" else ""))
        f, problems = self.extract(w)
        w.cache_extract = (f, problems)
        if exp["exc"] == "ANY":
            # an operand that fails part-way: the call must raise (its own
            # TypeError / AttributeError or the operand's exception) and must
            # leave everything consistent (checked below); which prefix of
            # the operand was applied is not prescribed
            if exc is None:
                v.append(("C16/failing-operand-accepted:%s" % tag,
                          "op %s returned normally" % (op,)))
                exp = {"exc": None, "ret": ("any", None)}
            else:
                exp = {"exc": exc}
        # --- C16: return value / exception refinement of the built-in
        if exp["exc"] != exc:
            v.append(("C16/exception:%s:expected=%s:got=%s:%s"
                      % (tag, exp["exc"], exc, self.shape(w, before_model, op)),
                      "op %s: built-in raises %s, implementation %s"
                      % (op, exp["exc"], exc)))
        elif exc is None:
            rk, rv = exp.get("ret", ("none", None))
            ok = True
            if op[0] == "save_load":
                ok = res is None
                if not ok:
                    v.append(("C03/save_load-lost-nodes:%s" % (res,),
                              "nodes missing after load: %s" % (res,)))
                    ok = True
            elif rk == "none":
                ok = res is None
            elif rk == "self":
                ok = res == "self"
            elif rk == "member":
                ok = res in rv
            elif rk == "value":
                ok = w.name_of(res) == rv
            elif rk == "seq":
                ok = res == rv
            elif rk == "any":
                ok = True
            if not ok:
                v.append(("C16/return:%s" % tag,
                          "op %s returned %r, expected %s %r"
                          % (op, res, rk, rv)))
            if op[0] == "mods" and not exp["accept"](impl_final):
                v.append(("C16/list-contents:%s:%s"
                          % (tag, self.shape(w, before_model, op)),
                          "op %s: built-in result %s, implementation %s"
                          % (op, exp["builtin"], impl_final)))
        # --- C04: both ends agree, forest equals model
        for sig, detail in problems:
            v.append(("C04/%s:%s:%s" % (sig, tag,
                                        self.shape(w, before_model, op)),
                      "after %s: %s" % (op, detail)))
        if exc is None and any(sig == "two-parents" for sig, _ in problems):
            v.append(("C16/inserted-node-duplicated-not-moved:%s:%s"
                      % (tag, self.shape(w, before_model, op)),
                      "op %s: %s" % (op, [d for sg, d in problems
                                          if sg == "two-parents"][0])))
        if problems and exc is not None:
            v.append(("C16/failed-operation-leaves-inconsistent-state:%s:%s"
                      % (tag, self.shape(w, before_model, op)),
                      "op %s raised %s and left: %s" % (op, exc, problems[0][1])))
        if not problems:
            if exc is not None and exp["exc"] is not None:
                # failed operation: must be consistent (it is); adopt state
                w.model.parent = dict(f.parent)
                w.model.mods = {k: list(x) for k, x in f.mods.items()}
            elif f.key() != w.model.key():
                v.append(("C04/forest-differs-from-model:%s:%s"
                          % (tag, self.shape(w, before_model, op)),
                          "after %s: parents %s modules %s; model parents %s "
                          "modules %s" % (op, f.parent, f.mods,
                                          w.model.parent, w.model.mods)))
                w.model.parent = dict(f.parent)
                w.model.mods = {k: list(x) for k, x in f.mods.items()}
        # --- C04 frame: attributes untouched by moves
        if op[0] != "save_load" or True:
            after_attrs = self.attr_snapshot(w)
            if after_attrs != before_attrs:
                diff = [n for n in after_attrs
                        if after_attrs[n] != before_attrs.get(n)]
                v.append(("C04/frame-attributes-changed:%s" % tag,
                          "op %s changed attributes of %s" % (op, diff)))
        return v

    def shape(self, w, model, op):
        """coarse description of the op's situation for the signature"""
        if op[0] == "mods":
            ir = op[1]
            cur = model.mods[ir]
            args = []
            live = ""
            for a in op[3:]:
                if isinstance(a, str):
                    args.append(a)
                elif isinstance(a, list):
                    args += a
                elif isinstance(a, dict):
                    live = ";live-operand=%s" % (
                        "self" if a["live"] == ir else "other")
                    args += model.mods[a["live"]]
            rel = []
            for a in args:
                if a in cur:
                    rel.append("member@%d" % cur.index(a))
                elif model.parent[a] is not None:
                    rel.append("owned-elsewhere")
                else:
                    rel.append("detached")
            nums = [a for a in op[3:] if isinstance(a, int) or a is None]
            return "len=%d;idx=%s;args=%s%s" % (len(cur), nums, rel, live)
        if op[0] == "set":
            owner = op[1]
            arg = op[4]
            flat = []
            live = ""
            ek = dict(FIELDS[w.kind[owner]])[op[2]]

            def lv(a):
                nonlocal live
                live = ";live-operand=%s" % (
                    "self" if a["live"] == owner else "other")
                return sorted(model.children(a["live"], ek))

            if isinstance(arg, str):
                flat = [arg]
            elif isinstance(arg, dict):
                flat = lv(arg)
            elif isinstance(arg, list):
                for a in arg:
                    flat += (a if isinstance(a, list) else
                             (lv(a) if isinstance(a, dict) else [a]))
            rel = []
            for a in flat:
                p = model.parent[a]
                rel.append("member" if p == owner else
                           ("owned-elsewhere" if p else "detached"))
            return "kind=%s;args=%s%s" % (w.kind[owner], rel, live)
        if op[0] == "setp":
            c, p = op[1], op[2]
            q = model.parent[c]
            return "kind=%s;from=%s;to=%s" % (
                w.kind[c], "none" if q is None else
                ("same" if q == p else "other"),
                "none" if p is None else "node")
        return ""

    def apply_attr(self, w, op):
        """Edit every public mutable attribute of one node; everything else
        must keep its snapshot, the forest must not move."""
        g = w.g
        n = op[1]
        o = w.objs[n]
        k = w.kind[n]
        before = self.attr_snapshot(w)
        fb, _ = self.extract(w)
        if k == "S":
            o.name = "renamed"
            o.flags.add(g.Section.Flag.Readable)
        if k == "M":
            o.name = "renamed"
            o.aux_data["k"] = g.AuxData(1, "uint8_t")
            o.isa = g.Module.ISA.X64
            o.rebase_delta = -1
        if k == "I":
            o.aux_data["k"] = g.AuxData(1, "uint8_t")
        if k == "Y":
            o.at_end = True
            o.name = "renamed"
        if k == "B":
            o.contents = bytearray(b"\x01")
        if k == "K":
            o.decode_mode = g.CodeBlock.DecodeMode.Thumb
        if k in "KD":
            o.size = 7
        after = self.attr_snapshot(w)
        fa, problems = self.extract(w)
        v = []
        changed = [m for m in after if after[m] != before[m]]
        if [m for m in changed if m != n]:
            v.append(("C04/attr-edit-leaks:%s" % k,
                      "editing %s changed %s" % (n, changed)))
        if problems or fa.key() != fb.key():
            v.append(("C04/attr-edit-moves-forest:%s" % k,
                      "editing %s: %s" % (n, problems)))
        return v

    def apply_ctor(self, w, op):
        g = w.g
        kind, variant = op[1], op[2]
        O = w.objs
        name = kind + "9"
        u = U(90 + "IMSYPBKD".index(kind))
        before_attrs = self.attr_snapshot(w)
        kw = {}
        variant = dict(variant)
        for key, val in list(variant.items()):
            if isinstance(val, dict):
                kw[key] = getattr(O[val["live"]], key)
                ek = dict(FIELDS[kind])[key]
                variant[key] = (list(w.model.mods[val["live"]])
                                if kind == "I" else
                                sorted(w.model.children(val["live"], ek)))
            elif isinstance(val, list):
                kw[key] = [O[x] for x in val]
            else:
                kw[key] = None if val is None else O[val]
        exc = None
        try:
            if kind == "I":
                o = g.IR(uuid=u, **kw)
            elif kind == "M":
                o = g.Module(name="new", uuid=u, **kw)
            elif kind == "S":
                o = g.Section(name="new", uuid=u, **kw)
            elif kind == "Y":
                o = g.Symbol("new", uuid=u, **kw)
            elif kind == "P":
                o = g.ProxyBlock(uuid=u, **kw)
            elif kind == "B":
                o = g.ByteInterval(size=2, uuid=u, **kw)
            elif kind == "K":
                o = g.CodeBlock(size=1, uuid=u, **kw)
            else:
                o = g.DataBlock(size=1, uuid=u, **kw)
        except Exception as e:  # noqa
            exc = type(e).__name__
        v = []
        if exc is not None:
            v.append(("C04/ctor-raises:%s:%s" % (kind, exc),
                      "constructor %s raised %s" % (op, exc)))
            return v
        # extend world + model
        old = w.model
        w.add(name, kind, o)
        w.model = Forest(w.kind)
        w.model.parent.update(old.parent)
        w.model.mods.update({k: list(x) for k, x in old.mods.items()})
        f = w.model
        for key, val in variant.items():
            if key in ("ir", "module", "section", "byte_interval"):
                if val is not None:
                    f.attach(name, val)
        # children arguments are applied before the parent keyword
        for key, val in variant.items():
            if isinstance(val, list):
                if kind == "I":
                    dedup = []
                    for x in val:
                        if x not in dedup:
                            dedup.append(x)
                    f.set_mods(name, dedup)
                else:
                    for x in val:
                        f.attach(x, name)
        fx, problems = self.extract(w)
        for sig, detail in problems:
            v.append(("C04/%s:ctor.%s" % (sig, kind),
                      "after %s: %s" % (op, detail)))
        if not problems and fx.key() != f.key():
            v.append(("C04/forest-differs-from-model:ctor.%s:%s"
                      % (kind, sorted(variant)),
                      "after %s: parents %s modules %s; model %s %s"
                      % (op, fx.parent, fx.mods, f.parent, f.mods)))
            w.model.parent = dict(fx.parent)
            w.model.mods = {k: list(x) for k, x in fx.mods.items()}
        after = self.attr_snapshot(w)
        after.pop(name)
        if after != before_attrs:
            v.append(("C04/frame-attributes-changed:ctor.%s" % kind, str(op)))
        return v

    # --------------------------------------------------------------- check
    def check(self, w):
        v = []
        if getattr(w, "cache_extract", None):
            f, problems = w.cache_extract
        else:
            f, problems = self.extract(w)
        O = w.objs
        for sig, detail in problems:
            v.append(("C04/state-%s" % sig, detail))
        if not problems and f.key() != w.model.key():
            v.append(("C04/state-forest-differs-from-model", ""))
        v += self.check_derived(w)
        v += self.check_uuid(w, f)
        return v

    def check_state(self, w):
        if self.c16_probes:
            return self.check_c16_probes(w)
        return []

    def check_uuid(self, w, f):
        """get_by_uuid(u) is the node reachable from ir through public
        iteration (and per the model), else None - for every IR, every UUID."""
        v = []
        O = w.objs
        uuids = {}
        for n in O:
            uuids.setdefault(w.uuid[n], []).append(n)
        for ir in sorted(n for n in O if w.kind[n] == "I"):
            reach_pub = {}  # uuid -> names, by walking the collections
            for n in self.reachable(w, ir):
                reach_pub.setdefault(w.uuid.get(n), []).append(n)
            reach_model = set([ir] + [m for m in w.model.parent
                                      if w.model.root_ir(m) == ir])
            for u in list(uuids) + [FOREIGN_UUID]:
                got = O[ir].get_by_uuid(u)
                gn = w.name_of(got)
                want = reach_pub.get(u, [])
                if len(want) > 1:
                    continue  # presupposition (distinct UUIDs per IR) broken
                wn = want[0] if want else None
                if gn != wn:
                    kind = ("stale" if gn is not None and wn is None else
                            "missing" if gn is None else "wrong-node")
                    v.append((
                        "C03/%s:%s" % (kind, w.kind.get(wn or gn, "?")),
                        "%s.get_by_uuid(%s) is %s, reachable node is %s"
                        % (ir, u, gn, wn),
                    ))
                if wn is not None and wn not in reach_model:
                    pass  # reported by C04
        return v

    def reachable(self, w, ir):
        """names reachable from an IR by public iteration of collections"""
        out = [ir]
        o = w.objs[ir]
        for m in o.modules:
            out.append(w.name_of(m))
            for s in m.sections:
                out.append(w.name_of(s))
                for b in s.byte_intervals:
                    out.append(w.name_of(b))
                    for k in b.blocks:
                        out.append(w.name_of(k))
            for y in m.symbols:
                out.append(w.name_of(y))
            for p in m.proxies:
                out.append(w.name_of(p))
        return out

    def check_derived(self, w):
        v = []
        O, K, f = w.objs, w.kind, w.model

        def names(it):
            return sorted(w.name_of(o) for o in it)

        def under(p, kinds):
            return sorted(n for n in f.parent
                          if K[n] in kinds and p in self.ancestors(f, n))

        # the aggregate iterators must follow the forest whatever the CFG
        # mentions: give every IR edges over ALL code blocks and proxies of
        # the pool (attached to it or not) while the accessors are read
        g = w.g
        cfg_nodes = [O[n] for n in sorted(O) if K[n] in "KP"]
        irs = [O[n] for n in sorted(O) if K[n] == "I"]
        for ir in irs:
            ir.cfg.update(g.Edge(a, b) for a, b in zip(
                cfg_nodes, cfg_nodes[1:] + cfg_nodes[:1]))
        try:
            self._check_derived(w, v, names, under)
        finally:
            for ir in irs:
                ir.cfg.clear()
        return v

    def _check_derived(self, w, v, names, under):
        O, K, f = w.objs, w.kind, w.model
        for n in sorted(O):
            o = O[n]
            k = K[n]
            if k != "I":
                want = f.root_ir(n)
                if w.name_of(o.ir) != want:
                    v.append(("C04/derived-ir:%s" % k,
                              "%s.ir is %s, forest says %s"
                              % (n, w.name_of(o.ir), want)))
            if k in "BKD":
                want = f.ancestor(n, "M")
                if w.name_of(o.module) != want:
                    v.append(("C04/derived-module:%s" % k,
                              "%s.module is %s want %s"
                              % (n, w.name_of(o.module), want)))
            if k in "KD":
                want = f.ancestor(n, "S")
                if w.name_of(o.section) != want:
                    v.append(("C04/derived-section:%s" % k, n))
            if k in "IMS":
                props = {
                    "I": [("proxy_blocks", "P"), ("sections", "S"),
                          ("symbols", "Y"), ("byte_intervals", "B"),
                          ("byte_blocks", "KD"), ("code_blocks", "K"),
                          ("data_blocks", "D"), ("cfg_nodes", "KP")],
                    "M": [("byte_intervals", "B"), ("byte_blocks", "KD"),
                          ("code_blocks", "K"), ("data_blocks", "D"),
                          ("cfg_nodes", "KP")],
                    "S": [("byte_blocks", "KD"), ("code_blocks", "K"),
                          ("data_blocks", "D")],
                }[k]
                for attr, kinds in props:
                    got = names(getattr(o, attr))
                    want = under(n, kinds)
                    if got != want:
                        v.append(("C04/derived-%s:%s" % (attr, k),
                                  "%s.%s = %s, forest implies %s"
                                  % (n, attr, got, want)))
        return v

    @staticmethod
    def ancestors(f, n):
        out = []
        n = f.parent.get(n)
        while n is not None:
            out.append(n)
            n = f.parent.get(n)
        return out

    def check_c16_probes(self, w):
        """Non-mutating operations agree with the built-in on the same
        elements, return plain values and leave ownership untouched."""
        v = []
        O, K = w.objs, w.kind
        before, _ = self.extract(w)
        for owner in sorted(O):
            for field, ek in FIELDS.get(K[owner], ()):
                coll = getattr(O[owner], field)
                if field == "modules":
                    v += self.probe_list(w, owner, coll)
                else:
                    v += self.probe_set(w, owner, field, ek, coll)
        after, problems = self.extract(w)
        if problems or after.key() != before.key():
            v.append(("C16/non-mutating-op-moved-nodes", str(problems)))
        return v

    def probe_set(self, w, owner, field, ek, coll):
        v = []
        O = w.objs
        elems = names_by_kind(w, ek)
        shadow = set(w.model.children(owner, ek))
        others = [[]] + [[x] for x in elems] + [
            list(p) for p in itertools.combinations(elems, 2)]
        tag = "%s" % w.kind[owner]

        def nm(r):
            return {w.name_of(o) for o in r}

        def cmp(label, fn_impl, fn_ref, plain=True):
            try:
                want = fn_ref()
                wexc = None
            except Exception as e:  # noqa
                want, wexc = None, type(e).__name__
            try:
                got = fn_impl()
                gexc = None
            except Exception as e:  # noqa
                got, gexc = None, type(e).__name__
            if wexc != gexc:
                v.append(("C16/set-op-exception:%s:%s:expected=%s:got=%s"
                          % (tag, label, wexc, gexc),
                          "%s.%s %s" % (owner, field, label)))
                return
            if gexc is not None:
                return
            if isinstance(want, (set, frozenset)):
                if plain and not (type(got) in (set, frozenset)):
                    v.append(("C16/set-op-not-plain:%s:%s" % (tag, label),
                              "returned %s" % type(got).__name__))
                    return
                if nm(got) != want:
                    v.append(("C16/set-op-contents:%s:%s" % (tag, label),
                              "%s.%s %s: got %s want %s (contents %s)"
                              % (owner, field, label, sorted(nm(got)),
                                 sorted(want), sorted(shadow))))
            elif got != want:
                v.append(("C16/set-op-value:%s:%s" % (tag, label),
                          "%s.%s %s: got %r want %r"
                          % (owner, field, label, got, want)))

        cmp("len", lambda: len(coll), lambda: len(shadow))
        cmp("iter", lambda: set(iter(coll)), lambda: set(shadow), plain=False)
        cmp("iter-count", lambda: len(list(coll)), lambda: len(shadow))
        for x in elems:
            cmp("contains", lambda: O[x] in coll, lambda: x in shadow)
        for ss in others:
            o_impl = {O[x] for x in ss}
            o_ref = set(ss)
            rel = "other=%d;common=%d" % (len(ss), len(o_ref & shadow))
            for sym, fn in (("or", operator.or_), ("and", operator.and_),
                            ("sub", operator.sub), ("xor", operator.xor)):
                cmp("%s:%s" % (sym, rel), lambda: fn(coll, o_impl),
                    lambda: fn(shadow, o_ref))
                cmp("r%s:%s" % (sym, rel), lambda: fn(o_impl, coll),
                    lambda: fn(o_ref, shadow))
            for sym, fn in (("eq", operator.eq), ("ne", operator.ne),
                            ("le", operator.le), ("lt", operator.lt),
                            ("ge", operator.ge), ("gt", operator.gt)):
                cmp("%s:%s" % (sym, rel), lambda: fn(coll, o_impl),
                    lambda: fn(shadow, o_ref))
                cmp("r%s:%s" % (sym, rel), lambda: fn(o_impl, coll),
                    lambda: fn(o_ref, shadow))
            cmp("isdisjoint:%s" % rel, lambda: coll.isdisjoint(o_impl),
                lambda: shadow.isdisjoint(o_ref))
        return v

    def probe_list(self, w, owner, coll):
        v = []
        O = w.objs
        shadow = list(w.model.mods[owner])
        mods = names_by_kind(w, "M")

        def nm(r):
            return [w.name_of(o) for o in r]

        def cmp(label, fn_impl, fn_ref, conv=None, plain_list=False):
            try:
                want, wexc = fn_ref(), None
            except Exception as e:  # noqa
                want, wexc = None, type(e).__name__
            try:
                got, gexc = fn_impl(), None
            except Exception as e:  # noqa
                got, gexc = None, type(e).__name__
            if wexc != gexc:
                v.append(("C16/list-op-exception:%s:expected=%s:got=%s"
                          % (label, wexc, gexc), owner))
                return
            if gexc is not None:
                return
            if plain_list and type(got) is not list:
                v.append(("C16/list-op-not-plain:%s" % label,
                          type(got).__name__))
                return
            if conv:
                got = conv(got)
            if got != want:
                v.append(("C16/list-op-value:%s" % label,
                          "%s: got %r want %r" % (owner, got, want)))

        n = len(shadow)
        cmp("len", lambda: len(coll), lambda: len(shadow))
        cmp("iter", lambda: list(coll), lambda: list(shadow), nm)
        cmp("reversed", lambda: list(reversed(coll)),
            lambda: list(reversed(shadow)), nm)
        for i in sorted({0, 1, n, -1, -(n + 1)}):
            cmp("getitem", lambda: coll[i], lambda: shadow[i], w.name_of)
        for a, b, c in ((0, 1, None), (None, None, None), (1, None, None),
                        (None, None, -1), (0, None, 2)):
            cmp("getslice", lambda: coll[a:b:c], lambda: shadow[a:b:c], nm,
                plain_list=True)
        for m in mods:
            cmp("contains", lambda: O[m] in coll, lambda: m in shadow)
            cmp("index", lambda: coll.index(O[m]), lambda: shadow.index(m))
            cmp("count", lambda: coll.count(O[m]), lambda: shadow.count(m))
        return v

    def stats(self, w, op):
        return ()


# ------------------------------------------------------------ isolation
OWN_ATTRS = {
    "IR": ("aux_data", "modules", "cfg"),
    "Module": ("aux_data", "sections", "symbols", "proxies"),
    "Section": ("flags", "byte_intervals"),
    "ByteInterval": ("blocks", "symbolic_expressions"),
    "SymAddrConst": ("attributes",),
    "SymAddrAddr": ("attributes",),
}


def isolation_check(props):
    """C04: separately constructed nodes never share flags, AuxData maps,
    attributes or collections; constructors copy their arguments."""
    import gtirb as g

    v = []
    n = 0

    def snap(o):
        d = {}
        for attr in OWN_ATTRS.get(type(o).__name__, ()):
            if hasattr(o, attr):
                val = getattr(o, attr)
                try:
                    d[attr] = (sorted(map(repr, val)) if not hasattr(val, "items")
                               else sorted((repr(k), repr(x)) for k, x in val.items()))
                except Exception as e:  # noqa
                    d[attr] = repr(e)
        return d

    y = g.Symbol("y")
    makers = {
        "IR": lambda **kw: g.IR(**kw),
        "Module": lambda **kw: g.Module(name="m", **kw),
        "Section": lambda **kw: g.Section(**kw),
        "ByteInterval": lambda **kw: g.ByteInterval(size=4, **kw),
        "SymAddrConst": lambda **kw: g.SymAddrConst(0, y, **kw),
        "SymAddrAddr": lambda **kw: g.SymAddrAddr(1, 0, y, y, **kw),
    }
    mutators = {
        "flags": lambda o: o.flags.add(g.Section.Flag.Writable),
        "aux_data": lambda o: o.aux_data.__setitem__("k", g.AuxData(1, "uint8_t")),
        "attributes": lambda o: o.attributes.add(g.SymbolicExpression.Attribute.GOT),
        "symbolic_expressions": lambda o: o.symbolic_expressions.__setitem__(
            0, g.SymAddrConst(0, y)),
        "blocks": lambda o: o.blocks.add(g.CodeBlock()),
        "byte_intervals": lambda o: o.byte_intervals.add(g.ByteInterval()),
        "sections": lambda o: o.sections.add(g.Section()),
        "symbols": lambda o: o.symbols.add(g.Symbol("z")),
        "proxies": lambda o: o.proxies.add(g.ProxyBlock()),
        "modules": lambda o: o.modules.append(g.Module(name="x")),
        "cfg": lambda o: o.cfg.add(g.Edge(g.ProxyBlock(), g.ProxyBlock())),
    }
    for cname, mk in makers.items():
        for attr, mut in mutators.items():
            if attr not in OWN_ATTRS[cname]:
                continue
            a, b = mk(), mk()
            n += 1
            sb = snap(b)
            mut(a)
            if snap(b) != sb:
                v.append(("C04/isolation-defaults-shared:%s.%s" % (cname, attr),
                          "mutating %s of one default-constructed %s changed "
                          "another" % (attr, cname)))
            c = mk()
            if snap(c) != sb:
                v.append(("C04/isolation-default-polluted:%s.%s" % (cname, attr),
                          "a later default-constructed %s sees the mutation"
                          % cname))
    # shared argument objects
    shared_args = {
        ("Section", "flags"): lambda: {g.Section.Flag.Readable},
        ("Module", "aux_data"): lambda: {"a": g.AuxData(1, "uint8_t")},
        ("IR", "aux_data"): lambda: {"a": g.AuxData(1, "uint8_t")},
        ("SymAddrConst", "attributes"): lambda: {g.SymbolicExpression.Attribute.PLT},
        ("SymAddrAddr", "attributes"): lambda: {g.SymbolicExpression.Attribute.PLT},
        ("ByteInterval", "symbolic_expressions"): lambda: {1: g.SymAddrConst(0, y)},
    }
    for (cname, attr), mkarg in shared_args.items():
        arg = mkarg()
        arg_before = repr(sorted(map(repr, arg)))
        a = makers[cname](**{attr: arg})
        b = makers[cname](**{attr: arg})
        n += 1
        sb = snap(b)
        mutators[attr](a)
        if snap(b) != sb:
            v.append(("C04/isolation-argument-shared:%s.%s" % (cname, attr),
                      "two %s built from one %s argument share it" % (cname, attr)))
        if repr(sorted(map(repr, arg))) != arg_before:
            v.append(("C04/isolation-argument-mutated:%s.%s" % (cname, attr),
                      "mutating the node changed the caller's argument"))
        sa = snap(a)
        if isinstance(arg, set):
            arg.add(g.Section.Flag.Loaded if attr == "flags"
                    else g.SymbolicExpression.Attribute.GOTPC)
        else:
            arg[99 if attr == "symbolic_expressions" else "zz"] = (
                g.SymAddrConst(5, y) if attr == "symbolic_expressions"
                else g.AuxData(2, "uint8_t"))
        if snap(a) != sa:
            v.append(("C04/isolation-argument-aliased:%s.%s" % (cname, attr),
                      "mutating the caller's argument changed the node"))
    # stored bytes: two intervals built from one caller-owned bytearray
    buf = bytearray(b"\x01\x02\x03\x04")
    a = g.ByteInterval(size=8, contents=buf)
    b = g.ByteInterval(size=8, contents=buf)
    n += 1
    a.initialized_size = 6
    a.contents[0] = 0xEE
    a.size = 2
    if bytes(b.contents) != b"\x01\x02\x03\x04":
        v.append(("C04/isolation-argument-shared:ByteInterval.contents",
                  "two intervals built from one bytearray share their bytes"))
    if bytes(buf) != b"\x01\x02\x03\x04":
        v.append(("C04/isolation-argument-mutated:ByteInterval.contents",
                  "editing the interval changed the caller's bytearray"))
    return n, [x for x in v if x[0][:3] in props]


# ------------------------------------------------------------------ run
def plan(ctx):
    prop = ctx.prop
    props = (prop,)
    c16 = prop == "C16"
    if ctx.tier == "quick":
        return [
            ("forest-q", ForestScenario("q", ["detached", "chain", "loaded"],
                                        props, c16_probes=c16,
                                        idx_wide=False), None),
            ("forest-q2", ForestScenario("q2", ["detached", "chain"],
                                         props, c16_probes=c16, ctor_ops=False,
                                         attr_ops=False, idx_wide=False,
                                         save_load_prefix=False), None),
            ("forest-m3", ForestScenario("m3", ["detached"], props,
                                         c16_probes=c16, ctor_ops=False,
                                         attr_ops=False, idx_wide=False,
                                         save_load_prefix=False), None),
            ("forest-twins", ForestScenario("tiny", ["twins"], props,
                                            c16_probes=False, ctor_ops=False,
                                            attr_ops=False, idx_wide=False), 1),
        ]
    return [
        ("forest-q", ForestScenario("q", ["detached", "chain", "loaded"],
                                    props, c16_probes=c16), None),
        ("forest-tA", ForestScenario("tA", ["detached", "chain", "loaded"],
                                     props, c16_probes=c16, ctor_ops=False,
                                     idx_wide=False), None),
        ("forest-tB", ForestScenario("tB", ["detached", "chain", "loaded"],
                                     props, c16_probes=c16, ctor_ops=False,
                                     idx_wide=False), None),
        ("forest-twins", ForestScenario("tiny", ["twins"], props,
                                        c16_probes=False, ctor_ops=False,
                                        attr_ops=False, idx_wide=False), 2),
    ]


def run(ctx, extra_cov=None):
    covs = []
    total_budget = ctx.budget
    plans = plan(ctx)
    # cheapest explorations first, so that a loaded machine caps the big one
    plans.sort(key=lambda p: {"forest-twins": 0, "forest-m3": 1,
                              "forest-q2": 2}.get(p[0], 3))
    for i, (label, sc, max_depth) in enumerate(plans):
        cov = explore.explore(ctx, sc, max_depth=max_depth, label=label)
        covs.append(cov)
        if ctx.out_of_time(0.9):
            break
    n_iso = 0
    if ctx.prop == "C04":
        n_iso, viol = isolation_check((ctx.prop,))
        for sig, detail in viol:
            ctx.violation(sig, {"scenario": "isolation", "detail": detail})
    states = sum(c["states"] for c in covs)
    transitions = sum(c["transitions"] for c in covs)
    samples = []
    for c in covs:
        samples += c.pop("samples")[:3]
    cov = {
        "states": states,
        "transitions": transitions + n_iso,
        "traces_validated_against_impl": transitions + n_iso,
        "exhaustive": all(c["exhaustive"] or c["scenario"] == "forest-twins"
                          for c in covs) and len(covs) == len(plans),
        "explorations": covs,
        "isolation_cases": n_iso,
        "samples": samples,
        "bound": "fix-point over each pool (all histories of any length); "
        "twins scenario depth-bounded",
    }
    if extra_cov:
        cov.update(extra_cov)
        m = extra_cov.get("mapping_exploration")
        if m:
            for k in ("states", "transitions", "traces_validated_against_impl"):
                cov[k] += m[k]
            cov["samples"] += m.get("samples", [])[:2]
            cov["exhaustive"] = cov["exhaustive"] and m["exhaustive"]
    return ctx.finish(
        "model_checking",
        cov,
        [
            "reference model: dict-based forest (mc/checks/forest.py:Forest) "
            "+ built-in list/set shadows",
            "states deduplicated by a generic heap fingerprint that skips "
            "LazyIntervalTree instances (they cannot influence containment)",
            "set.pop() transitions are checked from every state but never "
            "used as a prefix (covered by discard(x))",
        ],
    )


def replay(doc):
    prop = doc["property"]
    scen = doc.get("scenario", "forest-q")
    if scen == "isolation":
        n, viol = isolation_check((prop,))
        for s, d in viol:
            print(s, d)
        return 1 if any(s == doc["signature"] for s, _ in viol) else 0
    table = {
        "forest-q": lambda: ForestScenario("q", [], (prop,), c16_probes=True),
        "forest-q2": lambda: ForestScenario("q2", [], (prop,), c16_probes=True),
        "forest-m3": lambda: ForestScenario("m3", [], (prop,), c16_probes=True),
        "forest-tA": lambda: ForestScenario("tA", [], (prop,), c16_probes=True),
        "forest-tB": lambda: ForestScenario("tB", [], (prop,), c16_probes=True),
        "forest-twins": lambda: ForestScenario("tiny", [], (prop,)),
    }
    sc = table[scen]()
    w = sc.build(doc["init"])
    for op in doc["history"]:
        sc.apply(w, [tuple(x) if False else x for x in [op]][0])
    v = []
    if doc.get("op") is not None:
        v += sc.apply(w, doc["op"])
    v += sc.check(w)
    print("init=%s history=%s op=%s" % (doc["init"], doc["history"], doc.get("op")))
    for s, d in v:
        print("  ", s, "--", d)
    hit = any(s == doc["signature"] for s, _ in v)
    print("reproduced" if hit else "NOT reproduced")
    return 1 if hit else 0
