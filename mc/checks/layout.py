"""Scenario "layout": address/offset lookups at every scope (C05, C06) and
schedule-independence of the lazily maintained indexes (C12), by depth-bounded
exhaustive exploration of edit/lookup histories on the real objects against a
fresh-scan oracle."""

import hashlib
import io
import uuid as uuidlib

from .. import explore


def U(k):
    return uuidlib.UUID(int=0x5000 + k)


ADDR_DOM = (None, 0, 2)
BSIZE_DOM = (0, 2, 4)
KOFF_DOM = (0, 1, 3)
KSIZE_DOM = (0, 1, 3)

INTERVALS = ("B1", "B2", "B3", "B4")
BLOCKS = ("K1", "K2", "K3", "K4")
SECTIONS = ("S1", "S2")
MODULES = ("M1", "M2")


def hull_hit(lo, hi, a, size):
    """'on': non-zero size and [a, a+size) meets [lo, hi)"""
    return size > 0 and max(lo, a) < min(hi, a + size)


def qrange(q):
    return range(q, q + 1) if isinstance(q, int) else q


def queries(tier, big=False):
    qs = list(range(-1, 9))
    qs += [range(0, 2), range(1, 3), range(2, 4), range(0, 8), range(3, 6),
           range(4, 9), range(2, 2), range(5, 3), range(0, 8, 2),
           range(1, 8, 2), range(0, 8, 3), range(1, 7, 3), range(0, 4, 5),
           range(2, 3, 7)]
    if tier != "quick":
        for a in range(0, 9):
            for b in range(a, 9):
                for s in (1, 2, 3):
                    qs.append(range(a, b, s))
    if big:
        top = (1 << 64) - 4
        qs += [top - 1, top, top + 3, range(top - 2, top + 4),
               range(top, top + 8, 2), range(0, 1 << 64)]
    out, seen = [], set()
    for q in qs:
        k = repr(q)
        if k not in seen:
            seen.add(k)
            out.append(q)
    return out


class World:
    pass


class LayoutScenario(explore.Scenario):
    name = "layout"
    skip_class_names = ()

    def __init__(self, tier, inits=("fresh", "warm", "loaded"), big=False,
                 lean=False, focus=False):
        self.tier = tier
        self.inits = list(inits)
        self.big = big
        self.lean = lean
        self.focus = focus
        self.qs = queries(tier, big)
        self.addr_dom = ADDR_DOM + (((1 << 64) - 4,) if big else ())

    def initial_states(self):
        return self.inits

    # ------------------------------------------------------------ building
    def build(self, init):
        import gtirb as g

        w = World()
        w.g = g
        ir = g.IR(uuid=U(0))
        m1 = g.Module(name="m1", uuid=U(1), ir=ir)
        m2 = g.Module(name="m2", uuid=U(2), ir=ir)
        s1 = g.Section(name="s1", uuid=U(3), module=m1)
        s2 = g.Section(name="s2", uuid=U(4), module=m1)
        b1 = g.ByteInterval(address=0, size=4, uuid=U(5), section=s1)
        b2 = g.ByteInterval(address=2, size=2, uuid=U(6), section=s1)
        b3 = g.ByteInterval(address=None, size=4, uuid=U(7), section=s1)
        b4 = g.ByteInterval(address=2, size=4, uuid=U(8), section=s2)
        k1 = g.CodeBlock(size=1, offset=0, uuid=U(9), byte_interval=b1)
        k2 = g.CodeBlock(size=3, offset=1, uuid=U(10), byte_interval=b1)
        k3 = g.DataBlock(size=0, offset=3, uuid=U(11), byte_interval=b1)
        k4 = g.DataBlock(size=1, offset=1, uuid=U(12), byte_interval=b2)
        w.objs = {"I1": ir, "M1": m1, "M2": m2, "S1": s1, "S2": s2, "B1": b1,
                  "B2": b2, "B3": b3, "B4": b4, "K1": k1, "K2": k2, "K3": k3,
                  "K4": k4}
        if init == "loaded":
            self.save_load(w)
            self.lookup(w, "all")
        elif init == "warm":
            self.lookup(w, "all")
        return w

    def save_load(self, w):
        buf = io.BytesIO()
        w.objs["I1"].save_protobuf_file(buf)
        ir = w.g.IR.load_protobuf_file(io.BytesIO(buf.getvalue()))
        by_uuid = {o.uuid: n for n, o in w.objs.items()}
        found = {"I1": ir}
        for m in ir.modules:
            found[by_uuid[m.uuid]] = m
            for s in m.sections:
                found[by_uuid[s.uuid]] = s
                for b in s.byte_intervals:
                    found[by_uuid[b.uuid]] = b
                    for k in b.blocks:
                        found[by_uuid[k.uuid]] = k
        # detached nodes keep their old objects
        for n, o in found.items():
            w.objs[n] = o

    def lookup(self, w, scope):
        """issue lookups that materialise the indexes of a scope"""
        O = w.objs
        if scope == "all":
            for n in INTERVALS:
                list(O[n].byte_blocks_on_offset(0))
            for n in SECTIONS:
                list(O[n].byte_intervals_on(0))
        elif scope in INTERVALS:
            list(O[scope].byte_blocks_at_offset(range(0, 8)))
        elif scope in SECTIONS:
            O[scope].address
        elif scope == "ir-blocks":
            list(O["I1"].byte_blocks_on(range(0, 8)))

    # ----------------------------------------------------------------- ops
    def ops(self, w):
        if self.focus:
            # the two "movers" only (K4, B4): attach / detach / edit while
            # away / come back, with lookups anywhere in between
            out = []
            for t in ("B1", "B2", None):
                out.append(["kmove", "K4", t])
            for o in KOFF_DOM:
                out.append(["koff", "K4", o])
            for s_ in KSIZE_DOM:
                out.append(["ksize", "K4", s_])
            for t in ("S1", "S2", None):
                out.append(["bmove", "B4", t])
            for a in self.addr_dom:
                out.append(["baddr", "B4", a])
            for s_ in BSIZE_DOM:
                out.append(["bsize", "B4", s_])
            for sc in ("all", "B1", "S1"):
                out.append(["lookup", sc])
            return out
        out = []
        for b in INTERVALS:
            for a in self.addr_dom:
                out.append(["baddr", b, a])
            for s in BSIZE_DOM:
                out.append(["bsize", b, s])
        for k in BLOCKS:
            for o in KOFF_DOM:
                out.append(["koff", k, o])
            for s in KSIZE_DOM:
                out.append(["ksize", k, s])
            for t in ("B1", "B2", None):
                out.append(["kmove", k, t])
        for b in INTERVALS:
            for t in ("S1", "S2", None):
                out.append(["bmove", b, t])
        out += [["blocks", "B1", "clear", None], ["blocks", "B1", "update", ["K4"]],
                ["blocks", "B1", "discard", "K1"], ["blocks", "B2", "add", "K1"],
                ["blocks", "B2", "update", ["K1", "K2"]],
                ["ivs", "S2", "update", ["B1", "B2"]],
                ["ivs", "S1", "clear", None], ["ivs", "S1", "update", ["B4"]],
                ["ivs", "S1", "discard", "B1"], ["ivs", "S2", "add", "B1"],
                ["blocks", "B1", "remove", "K1"], ["blocks", "B1", "pop", None],
                ["ivs", "S1", "remove", "B1"], ["ivs", "S1", "pop", None],
                # in-place operators with plain-set operands: a member leaves
                # by ^= / -= / &=, a non-member enters by ^=
                ["blocks", "B1", "ixor", ["K1", "K4"]],
                ["ivs", "S1", "ixor", ["B1", "B4"]],
                ["blocks", "B1", "isub", ["K1"]], ["ivs", "S1", "isub", ["B1"]],
                ["blocks", "B1", "iand", ["K2"]], ["ivs", "S1", "iand", ["B2"]],
                # operands that are live owning collections of another parent
                ["blocks", "B2", "ior_live", "B1"],
                ["blocks", "B1", "update_live", "B2"],
                ["ivs", "S2", "ior_live", "S1"],
                ["ivs", "S1", "ixor_live", "S2"],
                ["ivs", "S2", "update_live", "S1"],
                # one-shot iterators as operands
                ["ivs", "S1", "update_gen", ["B4", "B2"]],
                ["blocks", "B1", "update_gen", ["K4", "K3"]]]
        for t in ("M2", "M1", None):
            out.append(["smove", "S2", t])
        out += [["mmove", "M1", None], ["mmove", "M1", "I1"]]
        for sc in ("all", "B1", "S1", "ir-blocks"):
            out.append(["lookup", sc])
        out.append(["save_load"])
        return out

    def prefix_ok(self, op):
        # which element pop() takes is not determined: checked as a
        # transition, never used as a prefix
        return not (len(op) > 2 and op[2] == "pop")

    def apply(self, w, op):
        O = w.objs
        kind = op[0]
        try:
            if kind == "baddr":
                O[op[1]].address = op[2]
            elif kind == "bsize":
                O[op[1]].size = op[2]
            elif kind == "koff":
                O[op[1]].offset = op[2]
            elif kind == "ksize":
                O[op[1]].size = op[2]
            elif kind == "kmove":
                O[op[1]].byte_interval = None if op[2] is None else O[op[2]]
            elif kind == "bmove":
                O[op[1]].section = None if op[2] is None else O[op[2]]
            elif kind in ("blocks", "ivs"):
                coll = (O[op[1]].blocks if kind == "blocks"
                        else O[op[1]].byte_intervals)
                if op[2] == "clear":
                    coll.clear()
                elif op[2] == "update":
                    coll.update([O[x] for x in op[3]])
                elif op[2] in ("remove", "pop"):
                    try:
                        coll.remove(O[op[3]]) if op[2] == "remove" \
                            else coll.pop()
                    except KeyError:
                        pass  # not a member / empty: as for the built-in
                elif op[2] == "update_gen":
                    coll.update(O[x] for x in op[3])
                elif op[2] in ("ixor", "isub", "iand"):
                    other = set(O[x] for x in op[3])
                    if op[2] == "ixor":
                        coll ^= other
                    elif op[2] == "isub":
                        coll -= other
                    else:
                        coll &= other
                elif op[2].endswith("_live"):
                    other = (O[op[3]].blocks if kind == "blocks"
                             else O[op[3]].byte_intervals)
                    if op[2] == "update_live":
                        coll.update(other)
                    elif op[2] == "ior_live":
                        coll |= other
                    else:
                        coll ^= other
                else:
                    getattr(coll, op[2])(O[op[3]])
            elif kind == "smove":
                O[op[1]].module = None if op[2] is None else O[op[2]]
            elif kind == "mmove":
                O[op[1]].ir = None if op[2] is None else O[op[2]]
            elif kind == "lookup":
                self.lookup(w, op[1])
            elif kind == "save_load":
                if O["M1"].ir is None or O["M2"].ir is None:
                    return []
                self.save_load(w)
            else:
                raise ValueError(op)
        except Exception as e:  # noqa
            import traceback

            # a legal edit that raises is a finding of the properties that
            # own the operation: the collection semantics (C04, C16) for
            # moves and set operations, the index property for attribute
            # edits and lookups
            owners = {
                "koff": ("C05", "C12"), "ksize": ("C05", "C12"),
                "baddr": ("C06", "C05", "C12"), "bsize": ("C06", "C12"),
                "lookup": ("C05", "C06", "C12"),
                "save_load": ("C01",),
            }.get(kind, ("C04", "C16"))
            return [("%s/edit-raises:%s:%s" % (p_, kind, type(e).__name__),
                     traceback.format_exc()[-400:]) for p_ in owners]
        return []

    # ------------------------------------------------------- public snapshot
    def structure(self, w):
        """public structure as plain data (names)"""
        O = w.objs
        name = {id(o): n for n, o in O.items()}

        def nm(o):
            return name.get(id(o), "?")

        st = {"mods": [nm(m) for m in O["I1"].modules]}
        for m in MODULES:
            st[m] = sorted(nm(s) for s in O[m].sections)
        for s in SECTIONS:
            st[s] = sorted(nm(b) for b in O[s].byte_intervals)
        for b in INTERVALS:
            st[b] = (O[b].address, O[b].size,
                     sorted(nm(k) for k in O[b].blocks))
        for k in BLOCKS:
            st[k] = (O[k].offset, O[k].size)
        return st

    # -------------------------------------------------------------- oracle
    def expected(self, w, st, q):
        """fresh scan.  Returns dict of exact answers and (must, may) pairs."""
        r = qrange(q)
        lo, hi = r.start, r.stop
        exact = {}
        bounds = {}
        code = {"K1", "K2"}
        per_iv = {}
        for b in INTERVALS:
            A, size, blocks = st[b]
            on_off = sorted(k for k in blocks
                            if hull_hit(lo, hi, st[k][0], st[k][1]))
            at_off = sorted(k for k in blocks if st[k][0] in r)
            exact[(b, "byte_blocks_on_offset")] = on_off
            exact[(b, "byte_blocks_at_offset")] = at_off
            if A is None:
                on = at = []
            else:
                on = sorted(k for k in blocks
                            if hull_hit(lo, hi, A + st[k][0], st[k][1]))
                at = sorted(k for k in blocks if (A + st[k][0]) in r)
            exact[(b, "byte_blocks_on")] = on
            exact[(b, "byte_blocks_at")] = at
            must_on = [k for k in on if st[k][0] + st[k][1] <= size]
            must_at = [k for k in at if st[k][0] < size]
            per_iv[b] = (on, at, must_on, must_at)
        sec_ext = {}
        for s in SECTIONS:
            ivs = st[s]
            on = sorted(b for b in ivs if st[b][0] is not None
                        and hull_hit(lo, hi, st[b][0], st[b][1]))
            at = sorted(b for b in ivs if st[b][0] is not None
                        and st[b][0] in r)
            exact[(s, "byte_intervals_on")] = on
            exact[(s, "byte_intervals_at")] = at
            if ivs and all(st[b][0] is not None for b in ivs):
                a0 = min(st[b][0] for b in ivs)
                e0 = max(st[b][0] + st[b][1] for b in ivs)
                sec_ext[s] = (a0, e0 - a0)
            else:
                sec_ext[s] = (None, None)
            exact[(s, "address")] = sec_ext[s][0]
            exact[(s, "size")] = sec_ext[s][1]
            may_on, may_at, must_on, must_at = [], [], [], []
            for b in ivs:
                may_on += per_iv[b][0]
                may_at += per_iv[b][1]
                must_on += per_iv[b][2]
                must_at += per_iv[b][3]
            bounds[(s, "byte_blocks_on")] = (sorted(must_on), sorted(may_on))
            bounds[(s, "byte_blocks_at")] = (sorted(must_at), sorted(may_at))

        def sections_of(scope):
            if scope == "I1":
                out = []
                for m in st["mods"]:
                    out += st[m]
                return out
            return st[scope]

        for scope in MODULES + ("I1",):
            secs = sections_of(scope)
            son = sorted(s for s in secs if sec_ext[s][0] is not None
                         and hull_hit(lo, hi, sec_ext[s][0], sec_ext[s][1]))
            sat = sorted(s for s in secs if sec_ext[s][0] is not None
                         and sec_ext[s][0] in r)
            exact[(scope, "sections_on")] = son
            exact[(scope, "sections_at")] = sat
            ion, iat = [], []
            mon, mat, Mon, Mat = [], [], [], []
            for s in secs:
                ion += exact[(s, "byte_intervals_on")]
                iat += exact[(s, "byte_intervals_at")]
                mon += bounds[(s, "byte_blocks_on")][0]
                Mon += bounds[(s, "byte_blocks_on")][1]
                mat += bounds[(s, "byte_blocks_at")][0]
                Mat += bounds[(s, "byte_blocks_at")][1]
            exact[(scope, "byte_intervals_on")] = sorted(ion)
            exact[(scope, "byte_intervals_at")] = sorted(iat)
            bounds[(scope, "byte_blocks_on")] = (sorted(mon), sorted(Mon))
            bounds[(scope, "byte_blocks_at")] = (sorted(mat), sorted(Mat))
        return exact, bounds, code

    def observe(self, w, q, kinds):
        """implementation answers for one query"""
        O = w.objs
        name = {id(o): n for n, o in O.items()}

        def names(it):
            return sorted(name.get(id(o), "?") for o in it)

        ans = {}
        for b in INTERVALS:
            o = O[b]
            for meth in ("byte_blocks_on", "byte_blocks_at",
                         "byte_blocks_on_offset", "byte_blocks_at_offset"):
                ans[(b, meth)] = names(getattr(o, meth)(q))
                if kinds:
                    for pre in ("code", "data"):
                        m2 = meth.replace("byte", pre)
                        ans[(b, m2)] = names(getattr(o, m2)(q))
        for s in SECTIONS:
            o = O[s]
            for meth in ("byte_intervals_on", "byte_intervals_at",
                         "byte_blocks_on", "byte_blocks_at"):
                ans[(s, meth)] = names(getattr(o, meth)(q))
            if kinds:
                for meth in ("code_blocks_on", "code_blocks_at",
                             "data_blocks_on", "data_blocks_at"):
                    ans[(s, meth)] = names(getattr(o, meth)(q))
        for scope in MODULES + ("I1",):
            o = O[scope]
            for meth in ("sections_on", "sections_at", "byte_intervals_on",
                         "byte_intervals_at", "byte_blocks_on",
                         "byte_blocks_at"):
                ans[(scope, meth)] = names(getattr(o, meth)(q))
            if kinds:
                for meth in ("code_blocks_on", "code_blocks_at",
                             "data_blocks_on", "data_blocks_at"):
                    ans[(scope, meth)] = names(getattr(o, meth)(q))
        return ans

    def check_state(self, w):
        v = []
        st = self.structure(w)
        O = w.objs
        digest = hashlib.md5()
        n_nonempty = 0
        # section extents first (they use the index too)
        for qi, q in enumerate(self.qs):
            kinds = qi % 5 == 0
            exact, bounds, code = self.expected(w, st, q)
            try:
                ans = self.observe(w, q, kinds)
            except Exception as e:  # noqa
                import traceback

                v.append(("C05/lookup-raises:%s" % type(e).__name__,
                          "query %r: %s" % (q, traceback.format_exc()[-300:])))
                continue
            for s in SECTIONS:
                ans[(s, "address")] = O[s].address
                ans[(s, "size")] = O[s].size
            digest.update(repr(sorted(ans.items(), key=repr)).encode())
            for key, want in exact.items():
                got = ans[key]
                if got != want:
                    scope, meth = key
                    prop = "C05" if "blocks" in meth else "C06"
                    dup = isinstance(got, list) and len(set(got)) != len(got)
                    kind = "duplicate" if dup else (
                        "extra" if isinstance(got, list)
                        and set(got) - set(want or []) else "differs")
                    v.append(("%s/%s:%s:%s" % (prop, meth, scope[0], kind),
                              "%s.%s(%r) = %s, fresh scan gives %s; structure "
                              "%s" % (scope, meth, q, got, want, st)))
                elif want:
                    n_nonempty += 1
            for key, (must, may) in bounds.items():
                got = ans[key]
                scope, meth = key
                if len(set(got)) != len(got):
                    v.append(("C05/%s:%s:duplicate" % (meth, scope[0]),
                              "%s.%s(%r) = %s" % (scope, meth, q, got)))
                elif not (set(must) <= set(got) <= set(may)):
                    kind = "missing" if set(must) - set(got) else "extra"
                    v.append(("C05/%s:%s:%s" % (meth, scope[0], kind),
                              "%s.%s(%r) = %s, must contain %s, may contain "
                              "%s; structure %s" % (scope, meth, q, got, must,
                                                    may, st)))
                elif got:
                    n_nonempty += 1
            if kinds:
                for (scope, meth), got in list(ans.items()):
                    if meth.startswith(("code_", "data_")):
                        base = ans[(scope, "byte" + meth[4:])]
                        want = [k for k in base
                                if (k in code) == meth.startswith("code_")]
                        if got != want:
                            v.append(("C05/%s:%s:kind-filter" % (meth, scope[0]),
                                      "%s.%s(%r) = %s but byte variant %s"
                                      % (scope, meth, q, got, base)))
        w.summary = (
            hashlib.md5(repr(sorted(st.items())).encode()).hexdigest(),
            digest.hexdigest(),
        )
        w.nonempty = n_nonempty
        return v[:12]

    def state_summary(self, w):
        return getattr(w, "summary", None)

    def summary_signature(self, key, v1, v2):
        return "answers-depend-on-lookup-schedule"

    def state_stats(self, w):
        out = ["probed-states"]
        if getattr(w, "nonempty", 0):
            out.append("states-with-non-empty-answers")
        return out

    def fp_extra(self, w):
        return ""


_STATS = None


def install_lazy_counters():
    """anti-vacuity: count which branch LazyIntervalTree.get takes, from the
    harness side (no source hook)"""
    import collections

    global _STATS
    _STATS = collections.Counter()
    try:
        from gtirb import lazyintervaltree as lt
    except Exception:  # noqa
        return
    cls = getattr(lt, "LazyIntervalTree", None)
    if cls is None or not hasattr(cls, "get"):
        return
    orig = cls.get

    def get(self):
        try:
            built = self._interval_index is not None
            nev = len(self._interval_events)
            n = len(self._value_collection)
            if not built:
                _STATS["lazy:first-build"] += 1
            elif n <= nev:
                _STATS["lazy:rebuild(pending%ssize)" % (">" if nev > n else "=")] += 1
            elif nev:
                _STATS["lazy:incremental(pending<size)"] += 1
            else:
                _STATS["lazy:clean"] += 1
        except Exception:  # noqa
            _STATS["lazy:unknown-layout"] += 1
        return orig(self)

    cls.get = get


class CountingLayout(LayoutScenario):
    def state_stats(self, w):
        out = list(super().state_stats(w))
        if _STATS:
            for k, n in _STATS.items():
                out += [k] * min(n, 1)
            _STATS.clear()
        return out


def run(ctx):
    install_lazy_counters()
    prop = ctx.prop
    if ctx.tier == "quick":
        plans = [(CountingLayout("quick"), 1),
                 (CountingLayout("quick", inits=("warm",), focus=True), 2)]
    else:
        plans = [(CountingLayout("thorough"), 2),
                 (CountingLayout("quick", inits=("warm", "loaded"),
                                 focus=True), 4),
                 (CountingLayout("quick", inits=("warm",), big=True), 1)]
    covs = []
    for sc, depth in plans:
        cov = explore.explore(ctx, sc, max_depth=depth, probe_leaves=True,
                              label="layout(depth<=%d%s%s)" % (
                                  depth + 1, ",big" if sc.big else "",
                                  ",movers-only" if sc.focus else ""))
        cov["queries_per_state"] = len(sc.qs)
        covs.append(cov)
        if ctx.out_of_time(0.9):
            break
    samples = []
    for c in covs:
        samples += c.pop("samples")[:4]
    cov = {
        "states": sum(c["states"] for c in covs),
        "transitions": sum(c["transitions"] for c in covs),
        "traces_validated_against_impl": sum(c["transitions"] for c in covs),
        "explorations": covs,
        "exhaustive": False,
        "bound": "all histories of at most %s edit/lookup operations from 3 "
        "initial states (fresh, all indexes materialised, loaded); every "
        "reached state probed with every query at every scope"
        % [d + 1 for _, d in plans],
        "samples": samples,
    }
    return ctx.finish(
        "model_checking", cov,
        ["oracle: fresh scan of the public structure (mc/checks/layout.py:"
         "expected); for section/module/IR block lookups Must <= R <= May as "
         "the property allows", "depth-bounded: histories longer than the "
         "bound are not covered; the C12 differential compares all states "
         "that share one public structure"])


def replay(doc):
    install_lazy_counters()
    sc = LayoutScenario("thorough", big="big" in doc.get("scenario", ""))
    # (the movers-only alphabet is a subset: replay needs no special case)
    res = []
    for init, hist in ((doc["init"], doc["history"]),
                       (doc.get("init2"), doc.get("history2"))):
        if init is None:
            continue
        w = sc.build(init)
        for op in hist:
            sc.apply(w, op)
        v = []
        if doc.get("op") is not None:
            v += sc.apply(w, doc["op"])
        v += sc.check_state(w)
        res.append((v, w.summary))
        print("init=%s history=%s" % (init, hist))
        for s, d in v[:6]:
            print("  ", s, "--", d[:300])
    if doc.get("kind") == "summary-conflict":
        hit = (len(res) == 2 and res[0][1][0] == res[1][1][0]
               and res[0][1][1] != res[1][1][1])
    else:
        hit = any(s == doc["signature"] for s, _ in res[0][0])
    print("reproduced" if hit else "NOT reproduced")
    return 1 if hit else 0
