"""C10 - symbol lookups by name and by referent: explicit-state exploration to
fix-point of rename / payload / membership / block-move histories on the real
objects, checked against a fresh scan of the public structure and a tuple
model of every symbol."""

import io
import operator
import uuid as uuidlib

from .. import explore


def U(k):
    return uuidlib.UUID(int=0x6000 + k)


class World:
    pass


class SymbolScenario(explore.Scenario):
    name = "symbols"
    skip_class_names = ("LazyIntervalTree",)

    def __init__(self, nsyms=2, names=("", "a"), payloads=("K1", "P1", 0, None),
                 rich=False):
        self.syms = ["Y%d" % (i + 1) for i in range(nsyms)]
        self.names = list(names)
        self.payloads = list(payloads)
        self.rich = rich

    def initial_states(self):
        return ["start", "loaded"]

    def build(self, init):
        import gtirb as g

        w = World()
        w.g = g
        ir = g.IR(uuid=U(0))
        m1 = g.Module(name="m1", uuid=U(1), ir=ir)
        m2 = g.Module(name="m2", uuid=U(2), ir=ir)
        s1 = g.Section(name="s", uuid=U(3), module=m1)
        b1 = g.ByteInterval(size=4, address=0, uuid=U(4), section=s1)
        k1 = g.CodeBlock(size=1, uuid=U(5), byte_interval=b1)
        k2 = g.DataBlock(size=1, offset=1, uuid=U(6), byte_interval=b1)
        p1 = g.ProxyBlock(uuid=U(7), module=m1)
        w.objs = {"I1": ir, "M1": m1, "M2": m2, "S1": s1, "B1": b1, "K1": k1,
                  "K2": k2, "P1": p1}
        w.model = {}
        for i, y in enumerate(self.syms):
            if init == "loaded":
                pay = ["K1", 7, "P1"][i % 3]
                sym = g.Symbol("a", uuid=U(10 + i),
                               payload=w.objs[pay] if isinstance(pay, str) else pay,
                               module=m1)
                w.model[y] = ["M1", "a", pay]
            else:
                sym = g.Symbol("", uuid=U(10 + i))
                w.model[y] = [None, "", None]
            w.objs[y] = sym
        w.place = {"S1": "M1", "P1": "M1", "K1": "B1"}
        if init == "loaded":
            self.save_load(w)
        return w

    def save_load(self, w):
        buf = io.BytesIO()
        w.objs["I1"].save_protobuf_file(buf)
        ir = w.g.IR.load_protobuf_file(io.BytesIO(buf.getvalue()))
        by_uuid = {o.uuid: n for n, o in w.objs.items()}
        found = {"I1": ir}
        for m in ir.modules:
            found[by_uuid[m.uuid]] = m
            for s in m.sections:
                found[by_uuid[s.uuid]] = s
                for b in s.byte_intervals:
                    found[by_uuid[b.uuid]] = b
                    for k in b.blocks:
                        found[by_uuid[k.uuid]] = k
            for y in m.symbols:
                found[by_uuid[y.uuid]] = y
            for p in m.proxies:
                found[by_uuid[p.uuid]] = p
        missing = sorted(set(w.objs) - set(found))
        w.objs.update(found)
        return missing

    def can_save(self, w):
        if w.place["S1"] is None or w.place["P1"] is None \
                or w.place["K1"] is None:
            return False
        for y in self.syms:
            mod, _, pay = w.model[y]
            if mod is None:
                return False
            if isinstance(pay, str):
                owner = w.place["P1"] if pay == "P1" else w.place["S1"]
                if owner != mod:
                    return False
        return True

    def ops(self, w):
        out = []
        for y in self.syms:
            for n in self.names:
                out.append(["name", y, n])
            for p in self.payloads:
                if isinstance(p, str) or p is None:
                    out.append(["referent", y, p])
                if not isinstance(p, str):
                    out.append(["value", y, p])
            for m in ("M1", "M2", None):
                out.append(["ymod", y, m])
        for m in ("M1", "M2"):
            for y in self.syms:
                out.append(["yset", m, "add", [y]])
                out.append(["yset", m, "discard", [y]])
                out.append(["yset", m, "ixor", [y]])
                if self.rich:
                    out.append(["yset", m, "iand", [y]])
                    out.append(["yset", m, "remove", [y]])
                    out.append(["yset", m, "isub", [y]])
            out.append(["yset", m, "clear", []])
            out.append(["yset", m, "update", list(self.syms)])
            out.append(["yset", m, "pop", []])
            # the other module's live symbol set as the operand
            other = "M2" if m == "M1" else "M1"
            out.append(["yset", m, "update_live", [other]])
            out.append(["yset", m, "ixor_live", [other]])
        for m in ("M1", "M2", None):
            out.append(["smod", m])
            out.append(["pmod", m])
        out.append(["pset", "M2", "add"])
        out.append(["pset", "M1", "discard"])
        out.append(["pset", "M1", "add"])
        out.append(["kmove", None])
        out.append(["kmove", "B1"])
        out.append(["lookups"])
        if self.can_save(w):
            out.append(["save_load"])
        for n in self.names[:2]:
            for p in self.payloads:
                out.append(["ctor", n, p, "M1"])
        out.append(["ctor", "a", "K1", None])
        return out

    def prefix_ok(self, op):
        if op[0] == "kmove" and not self.rich:
            return False
        return op[0] != "ctor" and not (op[0] == "yset" and op[2] == "pop")

    def apply(self, w, op):
        O = w.objs
        M = w.model
        kind = op[0]
        v = []
        want_exc = None
        exc = None
        res = None
        try:
            if kind == "name":
                O[op[1]].name = op[2]
                M[op[1]][1] = op[2]
            elif kind == "referent":
                O[op[1]].referent = None if op[2] is None else O[op[2]]
                M[op[1]][2] = op[2]
            elif kind == "value":
                O[op[1]].value = op[2]
                M[op[1]][2] = op[2]
            elif kind == "ymod":
                O[op[1]].module = None if op[2] is None else O[op[2]]
                M[op[1]][0] = op[2]
            elif kind == "yset":
                coll = O[op[1]].symbols
                meth, args = op[2], op[3]
                cur = {y for y in self.syms if M[y][0] == op[1]}
                if meth == "add":
                    coll.add(O[args[0]])
                    M[args[0]][0] = op[1]
                elif meth == "discard":
                    coll.discard(O[args[0]])
                    if args[0] in cur:
                        M[args[0]][0] = None
                elif meth == "remove":
                    if args[0] not in cur:
                        want_exc = "KeyError"
                    coll.remove(O[args[0]])
                    M[args[0]][0] = None
                elif meth == "clear":
                    coll.clear()
                    for y in cur:
                        M[y][0] = None
                elif meth == "update":
                    coll.update([O[y] for y in args])
                    for y in args:
                        M[y][0] = op[1]
                elif meth in ("update_live", "ixor_live"):
                    src = {y for y in self.syms if M[y][0] == args[0]}
                    if meth == "update_live":
                        coll.update(O[args[0]].symbols)
                    else:
                        coll ^= O[args[0]].symbols
                    for y in src:
                        M[y][0] = op[1]
                elif meth == "pop":
                    if not cur:
                        want_exc = "KeyError"
                    r = coll.pop()
                    for y in cur:
                        if O[y] is r:
                            M[y][0] = None
                            break
                    else:
                        v.append(("C10/pop-returned-non-member", repr(r)))
                else:
                    other = {O[y] for y in args}
                    fn = {"ixor": operator.ixor, "iand": operator.iand,
                          "isub": operator.isub}[meth]
                    fn(coll, other)
                    for y in self.syms:
                        if meth == "ixor" and y in args:
                            M[y][0] = None if y in cur else op[1]
                        elif meth == "iand" and y in cur and y not in args:
                            M[y][0] = None
                        elif meth == "isub" and y in cur and y in args:
                            M[y][0] = None
            elif kind == "smod":
                O["S1"].module = None if op[1] is None else O[op[1]]
                w.place["S1"] = op[1]
            elif kind == "pmod":
                O["P1"].module = None if op[1] is None else O[op[1]]
                w.place["P1"] = op[1]
            elif kind == "pset":
                getattr(O[op[1]].proxies, op[2])(O["P1"])
                if op[2] == "add":
                    w.place["P1"] = op[1]
                elif w.place["P1"] == op[1]:
                    w.place["P1"] = None
            elif kind == "kmove":
                O["K1"].byte_interval = None if op[1] is None else O[op[1]]
                w.place["K1"] = op[1]
            elif kind == "lookups":
                # observations as an operation (may plant hidden caches)
                for m in ("M1", "M2"):
                    for n in self.names:
                        list(O[m].symbols_named(n))
                for b in ("K1", "K2", "P1"):
                    list(O[b].references)
            elif kind == "save_load":
                missing = self.save_load(w)
                if missing:
                    v.append(("C10/save_load-lost", str(missing)))
            elif kind == "ctor":
                return self.apply_ctor(w, op)
            else:
                raise ValueError(op)
        except KeyError:
            exc = "KeyError"
        except Exception as e:  # noqa
            import traceback

            exc = type(e).__name__
            res = traceback.format_exc()[-300:]
        if exc != want_exc:
            # membership operations belong to the collection properties;
            # renames, payload changes and lookups to C10
            owners = (("C10",) if kind in ("name", "referent", "value",
                                           "lookups") else
                      ("C16", "C04") if "_index" not in str(res) else
                      ("C10", "C16", "C04"))
            for p_ in owners:
                v.append(("%s/exception:%s:expected=%s:got=%s"
                          % (p_, kind + ("." + op[2] if kind == "yset"
                                         else ""), want_exc, exc),
                          "%s %s" % (op, res)))
        return v

    def apply_ctor(self, w, op):
        g = w.g
        _, n, p, m = op
        O = w.objs
        y = "Y9"
        kw = {}
        if p is not None:
            kw["payload"] = O[p] if isinstance(p, str) else p
        if m is not None:
            kw["module"] = O[m]
        O[y] = g.Symbol(n, uuid=U(99), **kw)
        w.model[y] = [m, n, p]
        w.extra = [y]
        return []

    # --------------------------------------------------------------- check
    def block_module(self, w, b):
        if b == "P1":
            return w.place["P1"]
        if b == "K1" and w.place["K1"] is None:
            return None
        return w.place["S1"]

    def check(self, w):
        v = []
        O = w.objs
        M = w.model
        name = {id(o): n for n, o in O.items()}
        syms = list(self.syms) + getattr(w, "extra", [])

        def nm(o):
            return None if o is None else name.get(id(o), "?")

        # public attributes of every symbol equal the tuple model
        for y in syms:
            mod, n, pay = M[y]
            o = O[y]
            want_ref = pay if isinstance(pay, str) else None
            want_val = pay if isinstance(pay, int) else None
            got = (nm(o.module), o.name, nm(o.referent), o.value)
            if got != (mod, n, want_ref, want_val):
                v.append(("C10/symbol-attributes",
                          "%s: module/name/referent/value %r, expected %r"
                          % (y, got, (mod, n, want_ref, want_val))))
        for m in ("M1", "M2"):
            members = sorted(nm(y) for y in O[m].symbols)
            want_members = sorted(y for y in syms if M[y][0] == m)
            if members != want_members:
                v.append(("C10/module-symbols", "%s.symbols = %s want %s"
                          % (m, members, want_members)))
            for n in self.names + ["zz", "b"]:
                got = sorted(nm(y) for y in O[m].symbols_named(n))
                scan = sorted(nm(y) for y in O[m].symbols if y.name == n)
                if got != scan:
                    kind = ("duplicate" if len(set(got)) != len(got) else
                            "stale" if set(got) - set(scan) else "missing")
                    v.append(("C10/symbols_named:%s" % kind,
                              "%s.symbols_named(%r) = %s, scan gives %s"
                              % (m, n, got, scan)))
        for b in ("K1", "K2", "P1"):
            got = sorted(nm(y) for y in O[b].references)
            bm = O[b].module
            scan = [] if bm is None else sorted(
                nm(y) for y in bm.symbols if y.referent is O[b])
            want_mod = self.block_module(w, b)
            if nm(bm) != want_mod:
                v.append(("C10/block-module", "%s.module is %s want %s"
                          % (b, nm(bm), want_mod)))
            if got != scan:
                kind = ("duplicate" if len(set(got)) != len(got) else
                        "stale" if set(got) - set(scan) else "missing")
                v.append(("C10/references:%s:%s" % (kind, b[0]),
                          "%s.references = %s, scan of %s.symbols gives %s"
                          % (b, got, nm(bm), scan)))
        return v


def run(ctx):
    covs = []
    if ctx.tier == "quick":
        plans = [("symbols(2 symbols)", SymbolScenario(), None)]
    else:
        plans = [
            ("symbols(2 symbols, full domains)", SymbolScenario(
                2, ("", "a", "b"), ("K1", "K2", "P1", 0, 7, None), rich=True),
             None),
            ("symbols(3 symbols)", SymbolScenario(
                3, ("", "a"), ("K1", "P1", 0, None)), None),
        ]
    for label, sc, depth in plans:
        cov = explore.explore(ctx, sc, max_depth=depth, label=label)
        covs.append(cov)
        if ctx.out_of_time(0.9):
            break
    samples = []
    for c in covs:
        samples += c.pop("samples")[:4]
    cov = {
        "states": sum(c["states"] for c in covs),
        "transitions": sum(c["transitions"] for c in covs),
        "traces_validated_against_impl": sum(c["transitions"] for c in covs),
        "explorations": covs,
        "exhaustive": all(c["exhaustive"] for c in covs)
        and len(covs) == len(plans),
        "bound": "fix-point over symbol (module, name, payload) "
        "configurations x placements of the section and the proxy",
        "samples": samples,
    }
    return ctx.finish(
        "model_checking", cov,
        ["oracle: fresh scan of module.symbols through public attributes, "
         "plus a per-symbol (module, name, payload) tuple model",
         "set.pop() and constructor transitions are checked from every state "
         "but not used as prefixes"])


def replay(doc):
    table = {
        "symbols(2 symbols)": lambda: SymbolScenario(),
        "symbols(2 symbols, full domains)": lambda: SymbolScenario(
            2, ("", "a", "b"), ("K1", "K2", "P1", 0, 7, None), rich=True),
        "symbols(3 symbols)": lambda: SymbolScenario(
            3, ("", "a"), ("K1", "P1", 0, None)),
    }
    sc = table.get(doc.get("scenario"), table["symbols(2 symbols)"])()
    w = sc.build(doc["init"])
    for op in doc["history"]:
        sc.apply(w, op)
    v = []
    if doc.get("op") is not None:
        v += sc.apply(w, doc["op"])
    v += sc.check(w)
    for s, d in v:
        print(s, "--", d)
    hit = any(s == doc["signature"] for s, _ in v)
    print("init=%s history=%s op=%s: %s" % (
        doc["init"], doc["history"], doc.get("op"),
        "reproduced" if hit else "NOT reproduced"))
    return 1 if hit else 0
