"""C16 - owning collections behave like list / set / dict.

Two explorations with the C16 oracle switched on:
  * the "forest" scenario (mc/checks/forest.py): every mutating call of the
    module list and of the five node sets is compared (return value,
    exception class, resulting contents) with the same call on a built-in
    shadow, and every state is probed with the non-mutating operations
    (binary / reflected operators, comparisons, slicing, index, count ...);
  * the "symexpr" scenario (mc/checks/symexpr.py): the mutable-mapping
    interface of ByteInterval.symbolic_expressions against a dict.
"""

from . import forest, symexpr


def run(ctx):
    mapping_cov = symexpr.run(ctx)
    return forest.run(ctx, extra_cov={"mapping_exploration": mapping_cov})


def replay(doc):
    if str(doc.get("scenario", "")).startswith("symexpr"):
        return symexpr.replay(doc)
    return forest.replay(doc)
