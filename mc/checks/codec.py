"""C07 (encode->decode round trip) and C08 (wire format conformance):
exhaustive enumeration of AuxData type trees up to a depth/arity bound with
boundary-value tables per leaf, checked against mc/refcodec.py and (C08) the
repository's Java codec."""

import io
import itertools
import math
import os
import struct
import subprocess
import uuid

from .. import common, refcodec as R

REPS = ["uint8_t", "int64_t", "bool", "float", "double", "string", "UUID",
        "Offset", "Addr"]
_HI = 0x0123456789ABCDEF << 64  # not a byte-palindrome (bytes vs bytes_le)
ATTACHED = [uuid.UUID(int=_HI + 0x2000 + i) for i in range(3)]
UNATTACHED = [uuid.UUID(int=_HI + 0x2F00), uuid.UUID(int=0),
              uuid.UUID(int=(1 << 128) - 1)]

NAN1 = struct.unpack("<d", struct.pack("<Q", 0x7FF8000000000001))[0]
NAN32 = struct.unpack("<f", struct.pack("<I", 0x7FC00001))[0]


def int_table(name, full):
    size, signed = R.INTS[name]
    bits = size * 8
    lo = -(1 << (bits - 1)) if signed else 0
    hi = (1 << (bits - 1)) - 1 if signed else (1 << bits) - 1
    pattern = int.from_bytes(bytes(range(1, size + 1)), "big")
    if pattern > hi:
        pattern -= 1 << bits
    vals = [pattern, lo, hi, 0, 1, lo + 1, hi - 1]
    if signed:
        vals += [-1, -2]
    for k in range(1, bits):
        for d in (-1, 0, 1):
            x = (1 << k) + d
            for y in ((x, -x) if signed else (x,)):
                if lo <= y <= hi:
                    vals.append(y)
    if full and bits <= 8:
        vals += list(range(lo, hi + 1))
    if full == "16" and bits == 16:
        vals += list(range(lo, hi + 1))
    out = []
    seen = set()
    for v in vals:
        if v not in seen:
            seen.add(v)
            out.append(v)
    return out


STR_ALPHA = ["a", "\0", ",", "<", ">", "é", "€", "😀"]


def str_table(full):
    out = ["é€😀", "", "a,<>\0", "ab", "😀"]
    if full:
        for n in range(0, 4):
            for tup in itertools.product(STR_ALPHA, repeat=n):
                out.append("".join(tup))
        out.append("x" * 300 + "é")
    seen = set()
    res = []
    for s in out:
        if s not in seen:
            seen.add(s)
            res.append(s)
    return res


FLOATS64 = [1.5, -0.0, 0.0, math.inf, -math.inf, math.nan, NAN1, 5e-324,
            1.7976931348623157e308, 0.1, -2.5, 2.0 ** 53 + 2, 1e-45,
            3.4028235e38, 3.5e38, 16777217.0]
FLOATS32 = [1.5, -0.0, 0.0, math.inf, -math.inf, math.nan, NAN32, 1e-45,
            3.4028234663852886e38, 0.1, -2.5, 16777217.0,
            1.1754943508222875e-38]


def leaf_table(name, full=False):
    if name in R.INTS:
        return int_table(name, full)
    if name == "bool":
        return [True, False]
    if name == "float":
        return list(FLOATS32)
    if name == "double":
        return list(FLOATS64)
    if name == "string":
        return str_table(full)
    if name == "UUID":
        return [ATTACHED[0], UNATTACHED[0], UNATTACHED[1], UNATTACHED[2],
                ATTACHED[1], ATTACHED[2]]
    if name == "Offset":
        return [("Offset", ATTACHED[1], (1 << 64) - 1),
                ("Offset", UNATTACHED[0], 0),
                ("Offset", ATTACHED[0], 0x0102030405060708),
                ("Offset", UNATTACHED[2], (1 << 64) - 1),
                ("Offset", UNATTACHED[1], 0)]
    raise KeyError(name)


def is_nan_free(v):
    if isinstance(v, float):
        return v == v
    if isinstance(v, (tuple, list, frozenset, set)):
        return all(is_nan_free(x) for x in v)
    return True


def hashable_type(t):
    nm, subs = t
    if nm in R.LEAVES:
        return True
    if nm == "tuple":
        return all(hashable_type(s) for s in subs)
    return False


_VALS = {}


def vals(t, k):
    """up to k diverse values of type t (reference representation)"""
    key = (t, k)
    if key in _VALS:
        return _VALS[key]
    nm, subs = t
    if nm in R.LEAVES:
        out = leaf_table(nm)[:max(k, 3)]
    elif nm == "sequence":
        c = vals(subs[0], k)
        out = [list(c[:3]), [], [c[-1]]]
    elif nm == "set":
        c = [x for x in vals(subs[0], k) if is_nan_free(x)]
        out = [frozenset(c[:2]), frozenset(), frozenset(c[-1:])]
    elif nm == "mapping":
        ks = [x for x in vals(subs[0], k) if is_nan_free(x)]
        vs = vals(subs[1], k)
        # first value: as many entries as there are keys, cycling through all
        # values of the value type (so that e.g. 0.0 and -0.0, or two equal
        # values, meet inside ONE mapping)
        out = [{ks[i]: vs[i % len(vs)] for i in range(min(3, len(ks)))}, {},
               {ks[-1]: vs[-1]}, {ks[i]: vs[0] for i in range(min(2, len(ks)))}]
    elif nm == "tuple":
        cs = [vals(s, k) for s in subs]
        out = [tuple(c[i % len(c)] for c in cs) for i in range(max(3, k))]
    elif nm == "variant":
        out = []
        for rnd in range(2):
            for i, s in enumerate(subs):
                c = vals(s, k)
                out.append(("Variant", i, c[rnd % len(c)]))
    else:
        raise KeyError(nm)
    # de-duplicate by canonical form, keep order
    seen = set()
    res = []
    for v in out:
        f = R.freeze(v)
        if f not in seen:
            seen.add(f)
            res.append(v)
    res = res[:k]
    _VALS[key] = res
    return res


# ------------------------------------------------------------ type trees
def containers(unary, binary, ternary=()):
    for t in unary:
        yield ("sequence", (t,))
        if hashable_type(t):
            yield ("set", (t,))
        yield ("tuple", (t,))
        yield ("variant", (t,))
    for a in binary:
        ha = hashable_type(a)
        for b in binary:
            if ha:
                yield ("mapping", (a, b))
            yield ("tuple", (a, b))
            yield ("variant", (a, b))
    for a in ternary:
        for b in ternary:
            for c in ternary:
                yield ("tuple", (a, b, c))
                yield ("variant", (a, b, c))


def leaf(n):
    return (n, ())


def type_plan(tier):
    """list of ('label', generator-factory) chunks"""
    T0 = [leaf(n) for n in R.LEAVES]
    L1 = list(containers(T0, T0))
    reps = [leaf(n) for n in REPS]
    L1r = list(containers(reps, reps))
    chunks = [("depth<=1 all leaves", T0 + L1)]
    if tier == "quick":
        chunks.append(("depth2 unary over all depth<=1",
                       list(containers(T0 + L1, []))))
        chunks.append(("depth2 binary over leaf classes",
                       list(containers([], reps + L1r))))
        chunks.append(("arity3 over leaf classes",
                       list(containers([], [], reps[:6]))))
    else:
        chunks.append(("depth2 all", list(containers(T0 + L1, T0 + L1))))
        L2r = list(containers(reps + L1r, reps + L1r))
        chunks.append(("depth3 unary over leaf-class depth2", list(
            containers(L2r, []))))
        chunks.append(("depth3 binary with one uint8_t side", [
            (h, pair)
            for t in L2r
            for pair in ((leaf("uint8_t"), t), (t, leaf("uint8_t")))
            for h in ("tuple", "variant")
        ] + [("mapping", (leaf("uint8_t"), t)) for t in L2r]))
        chunks.append(("arity3 over leaf classes",
                       list(containers([], [], reps))))
    return chunks


# ------------------------------------------------------------ impl bridge
class Bridge:
    def __init__(self):
        import gtirb

        self.g = gtirb
        self.ser = gtirb.AuxData.serializer
        ir = gtirb.IR(uuid=uuid.UUID(int=0x2FFF))
        m = gtirb.Module(name="m", uuid=ATTACHED[0], ir=ir)
        s = gtirb.Section(name="s", uuid=ATTACHED[1], module=m)
        b = gtirb.ByteInterval(size=1, uuid=ATTACHED[2], section=s)
        self.ir = ir
        self.module = m
        self.nodes = {ATTACHED[0]: m, ATTACHED[1]: s, ATTACHED[2]: b}

    def ensure_nodes(self, n):
        """at least n further attached nodes (proxy blocks), UUID int
        0x30000 + i"""
        have = len(self.nodes) - 3
        for i in range(have, n):
            u = uuid.UUID(int=_HI + 0x30000 + i)
            self.nodes[u] = self.g.ProxyBlock(uuid=u, module=self.module)

    def to_impl(self, v, t, as_node):
        nm, subs = t
        g = self.g
        if nm == "UUID":
            return self.nodes[v] if (as_node and v in self.nodes) else v
        if nm == "Offset":
            e = v[1]
            if as_node and e in self.nodes:
                e = self.nodes[e]
            return g.Offset(element_id=e, displacement=v[2])
        if nm == "sequence":
            return [self.to_impl(x, subs[0], as_node) for x in v]
        if nm == "set":
            return {self.to_impl(x, subs[0], as_node) for x in v}
        if nm == "mapping":
            return {self.to_impl(k, subs[0], as_node):
                    self.to_impl(x, subs[1], as_node) for k, x in v.items()}
        if nm == "tuple":
            return tuple(self.to_impl(x, s, as_node) for x, s in zip(v, subs))
        if nm == "variant":
            return g.Variant(v[1], self.to_impl(v[2], subs[v[1]], as_node))
        return v

    def from_impl(self, x, t, errs, resolved=True):
        """implementation value -> reference representation.  Collects
        type/resolution problems in errs."""
        nm, subs = t
        g = self.g
        if nm == "UUID":
            return self.uuid_of(x, errs, resolved)
        if nm == "Offset":
            if not isinstance(x, g.Offset):
                errs.append("Offset decoded as %s" % type(x).__name__)
                return x
            return ("Offset", self.uuid_of(x.element_id, errs, resolved),
                    x.displacement)
        if nm in R.INTS:
            if type(x) is not int:
                errs.append("%s decoded as %s" % (nm, type(x).__name__))
            return x
        if nm == "bool":
            if type(x) is not bool:
                errs.append("bool decoded as %s" % type(x).__name__)
            return x
        if nm in ("float", "double"):
            if type(x) is not float:
                errs.append("%s decoded as %s" % (nm, type(x).__name__))
            return x
        if nm == "string":
            if type(x) is not str:
                errs.append("string decoded as %s" % type(x).__name__)
            return x
        if nm == "sequence":
            if not isinstance(x, list):
                errs.append("sequence decoded as %s" % type(x).__name__)
            return [self.from_impl(y, subs[0], errs, resolved) for y in x]
        if nm == "set":
            if not isinstance(x, (set, frozenset)):
                errs.append("set decoded as %s" % type(x).__name__)
            return frozenset(self.from_impl(y, subs[0], errs, resolved)
                             for y in x)
        if nm == "mapping":
            if not isinstance(x, dict):
                errs.append("mapping decoded as %s" % type(x).__name__)
            return {self.from_impl(k, subs[0], errs, resolved):
                    self.from_impl(y, subs[1], errs, resolved)
                    for k, y in x.items()}
        if nm == "tuple":
            if not isinstance(x, tuple) or len(x) != len(subs):
                errs.append("tuple decoded as %r" % (type(x).__name__,))
                return x
            return tuple(self.from_impl(y, s, errs, resolved)
                         for y, s in zip(x, subs))
        if nm == "variant":
            if not isinstance(x, g.Variant):
                errs.append("variant decoded as %s" % type(x).__name__)
                return x
            if not (0 <= x.index < len(subs)):
                errs.append("variant index %r" % (x.index,))
                return x
            return ("Variant", x.index,
                    self.from_impl(x.val, subs[x.index], errs, resolved))
        return x

    def uuid_of(self, x, errs, resolved):
        g = self.g
        if isinstance(x, g.Node):
            u = x.uuid
            if not resolved:
                errs.append("node returned without a lookup function")
            elif self.nodes.get(u) is not x:
                errs.append("UUID %s resolved to a different object" % u)
            return u
        if isinstance(x, uuid.UUID):
            if resolved and x in self.nodes:
                errs.append("attached UUID %s came back as a plain UUID" % x)
            return x
        errs.append("UUID decoded as %s" % type(x).__name__)
        return x

    def enc(self, v, tname):
        out = io.BytesIO()
        self.ser.encode(out, v, tname)
        return out.getvalue()

    def dec(self, b, tname, resolved=True):
        return self.ser.decode(
            b, tname, self.ir.get_by_uuid if resolved else None)


_BR = None


def bridge():
    global _BR
    if _BR is None:
        _BR = Bridge()
    return _BR


def has_unordered(t):
    nm, subs = t
    return nm in ("set", "mapping") or any(has_unordered(s) for s in subs)


def leafset(t):
    nm, subs = t
    if not subs:
        return frozenset([nm])
    out = frozenset([nm]) if nm in ("set", "mapping") else frozenset()
    for s in subs:
        out |= leafset(s)
    return out


def reorder(v, t):
    """same value with unordered containers iterated the other way round"""
    nm, subs = t
    if nm == "set":
        return list(reversed([reorder(x, subs[0]) for x in v]))
    if nm == "mapping":
        items = [(reorder(k, subs[0]), reorder(x, subs[1]))
                 for k, x in v.items()]
        return dict(reversed(items))
    if nm == "sequence":
        return [reorder(x, subs[0]) for x in v]
    if nm == "tuple":
        return tuple(reorder(x, s) for x, s in zip(v, subs))
    if nm == "variant":
        return ("Variant", v[1], reorder(v[2], subs[v[1]]))
    return v


def ref_encode_any_order(v, t):
    """reference encoder that accepts lists in place of sets (for reorder)"""
    nm, subs = t
    if nm == "set":
        return R.u64(len(v)) + b"".join(
            ref_encode_any_order(x, subs[0]) for x in v)
    if nm == "mapping":
        return R.u64(len(v)) + b"".join(
            ref_encode_any_order(k, subs[0]) + ref_encode_any_order(x, subs[1])
            for k, x in v.items())
    if nm == "sequence":
        return R.u64(len(v)) + b"".join(
            ref_encode_any_order(x, subs[0]) for x in v)
    if nm == "tuple":
        return b"".join(ref_encode_any_order(x, s) for x, s in zip(v, subs))
    if nm == "variant":
        return R.u64(v[1]) + ref_encode_any_order(v[2], subs[v[1]])
    return R.encode(v, t)


def check_case(t, v, idx):
    """Returns list of (prop, kind, detail)."""
    br = bridge()
    out = []
    tname = R.show(t)
    as_node = bool(idx & 1)
    want = R.freeze(R.round_floats(v, t))
    try:
        iv = br.to_impl(v, t, as_node)
        b = br.enc(iv, tname)
    except Exception as e:  # noqa
        return [("C07", "encode-exception:" + type(e).__name__, repr(e)[:200]),
                ("C08", "encode-exception:" + type(e).__name__, repr(e)[:200])]
    # ---- C08: bytes follow the format
    try:
        rb = R.encode(v, t)
        if not has_unordered(t):
            if b != rb:
                out.append(("C08", "bytes-differ",
                            "impl %s ref %s" % (b.hex(), rb.hex())))
        else:
            if len(b) != len(rb) or sorted(b) != sorted(rb):
                out.append(("C08", "bytes-differ-unordered",
                            "impl %s ref %s" % (b.hex(), rb.hex())))
            else:
                back = R.decode(b, t)
                if R.freeze(back) != want:
                    out.append(("C08", "ref-decodes-impl-bytes-differently",
                                "impl %s" % b.hex()))
    except R.RefError as e:
        out.append(("C08", "ref-cannot-decode-impl-bytes", str(e)))
        rb = None
    # ---- the same value handed over in another legal Python shape (any
    # Sequence for sequence and tuple types, any Set, any Mapping) must be
    # written as the same value
    alts = []
    nm_ = t[0]
    if nm_ == "sequence" and isinstance(iv, list):
        alts.append(("tuple", tuple(iv)))
        if iv and all(type(x) is int and 0 <= x < 256 for x in iv):
            alts += [("bytes", bytes(iv)), ("bytearray", bytearray(iv))]
        if iv and all(type(x) is int for x in iv) and len(iv) > 1 \
                and iv == list(range(iv[0], iv[0] + len(iv))):
            alts.append(("range", range(iv[0], iv[0] + len(iv))))
    elif nm_ == "set" and isinstance(iv, set):
        alts.append(("frozenset", frozenset(iv)))
        alts.append(("keys-view", dict.fromkeys(iv).keys()))
    elif nm_ == "mapping" and isinstance(iv, dict):
        import collections
        import types

        alts.append(("OrderedDict", collections.OrderedDict(iv)))
        alts.append(("mappingproxy", types.MappingProxyType(iv)))
    elif nm_ == "tuple" and isinstance(iv, tuple):
        alts.append(("list", list(iv)))
    for aname, av in alts:
        try:
            ab = br.enc(av, tname)
            same_bytes = (ab == b) if not has_unordered(t) else (
                len(ab) == len(b)
                and R.freeze(R.decode(ab, t)) == want)
            if not same_bytes:
                out.append(("C08", "bytes-differ:value-given-as-" + aname,
                            "as %s: %s, as %s: %s"
                            % (type(iv).__name__, b.hex()[:80], aname,
                               ab.hex()[:80])))
                out.append(("C07", "roundtrip-value:value-given-as-" + aname,
                            "encoding of the %s differs from the encoding "
                            "of the equal %s" % (aname, type(iv).__name__)))
        except Exception as e:  # noqa
            out.append(("C07", "encode-exception:value-given-as-%s:%s"
                        % (aname, type(e).__name__), repr(e)[:200]))
    # ---- C07: round trip
    for label, data, resolved in (("own", b, True), ("own-nolookup", b, False)):
        errs = []
        try:
            d = br.dec(data, tname, resolved)
            back = br.from_impl(d, t, errs, resolved)
            if errs:
                out.append(("C07", "resolution-or-type:" + label, errs[0]))
            elif R.freeze(back) != want:
                out.append(("C07", "roundtrip-value:" + label,
                            "bytes %s decoded %r" % (data.hex(), d)))
        except Exception as e:  # noqa
            out.append(("C07", "decode-exception:%s:%s"
                        % (label, type(e).__name__), repr(e)[:200]))
    # ---- the same bytes given as bytearray / memoryview / binary stream
    if idx % 7 == 0:
        def at_offset(data):
            st = io.BytesIO(b"\x07hdr" + data)
            st.seek(4)
            return st

        class Pipe(io.RawIOBase):
            """a binary stream that cannot seek"""

            def __init__(self, data):
                self._d, self._i = data, 0

            def readable(self):
                return True

            def seekable(self):
                return False

            def readinto(self, buf):
                n_ = min(len(buf), len(self._d) - self._i)
                buf[:n_] = self._d[self._i:self._i + n_]
                self._i += n_
                return n_

        for form, mk in (("bytearray", bytearray), ("memoryview", memoryview),
                         ("stream", io.BytesIO),
                         ("stream-not-at-offset-0", at_offset),
                         ("unseekable-stream",
                          lambda d_: io.BufferedReader(Pipe(d_)))):
            errs = []
            try:
                d = br.dec(mk(b), tname, True)
                back = br.from_impl(d, t, errs, True)
                if errs or R.freeze(back) != want:
                    out.append(("C07", "roundtrip-value:input-as-" + form,
                                "bytes %s decoded %r" % (b.hex(), d)))
            except Exception as e:  # noqa
                out.append(("C07", "decode-exception:input-as-%s:%s"
                            % (form, type(e).__name__), repr(e)[:200]))
    # ---- C08: foreign bytes decode to the same value
    if rb is not None:
        foreign = [rb]
        if has_unordered(t):
            try:
                foreign.append(ref_encode_any_order(reorder(v, t), t))
            except Exception:  # noqa
                pass
        for fb in foreign:
            if fb == b:
                continue
            errs = []
            try:
                d = br.dec(fb, tname, True)
                back = br.from_impl(d, t, errs, True)
                if errs or R.freeze(back) != want:
                    out.append(("C08", "decode-foreign-bytes",
                                "ref bytes %s decoded %r" % (fb.hex(), d)))
            except Exception as e:  # noqa
                out.append(("C08", "decode-foreign-exception:"
                            + type(e).__name__, repr(e)[:200]))
    # ---- C07: exact consumption, by framing
    try:
        f1 = "tuple<uint8_t,%s,uint8_t>" % tname
        fb = br.enc((0xA5, iv, 0x5A), f1)
        if fb != b"\xa5" + b + b"\x5a":
            out.append(("C07", "framing-bytes",
                        "framed %s inner %s" % (fb.hex(), b.hex())))
        d = br.dec(fb, f1, True)
        errs = []
        ok = (isinstance(d, tuple) and len(d) == 3 and d[0] == 0xA5
              and d[2] == 0x5A
              and R.freeze(br.from_impl(d[1], t, errs, True)) == want
              and not errs)
        if not ok:
            out.append(("C07", "framing-decode", "decoded %r" % (d,)))
        f2 = "sequence<%s>" % tname
        sb = br.enc([iv, iv], f2)
        if sb != R.u64(2) + b + b:
            out.append(("C07", "framing-sequence-bytes", sb.hex()))
        d = br.dec(sb, f2, True)
        errs = []
        if not (isinstance(d, list) and len(d) == 2 and all(
                R.freeze(br.from_impl(x, t, errs, True)) == want for x in d)
                and not errs):
            out.append(("C07", "framing-sequence-decode", "decoded %r" % (d,)))
    except Exception as e:  # noqa
        out.append(("C07", "framing-exception:" + type(e).__name__,
                    repr(e)[:200]))
    return out


def poison():
    """Failing operations between the cases: an encode that raises part-way
    (directly and through an IR save) must leave nothing behind that could
    leak into the next table.  Returns number of failing calls that raised."""
    br = bridge()
    g = br.g
    raised = 0
    # (the unknown-codec failure first: its handler is a natural place for a
    # clean-up that the other failure paths lack)
    for val, tname in (([1, 2], "sequence<nosuchcodec>"),
                       ([1, "two"], "sequence<int64_t>"),
                       ({"k": [1, None]}, "mapping<string,sequence<uint8_t>>"),
                       ([7, 300], "sequence<uint8_t>")):
        try:
            br.ser.encode(io.BytesIO(), val, tname)
        except Exception:  # noqa
            raised += 1
        ir = g.IR(uuid=uuid.UUID(int=0x2FFE))
        ir.aux_data["bad"] = g.AuxData(val, tname)
        try:
            ir.save_protobuf_file(io.BytesIO())
        except Exception:  # noqa
            raised += 1
    return raised


def ir_path_case(t, v, idx):
    """the value as an AuxData table of an IR and of a module, through
    save_protobuf_file / load_protobuf_file / .data"""
    br = bridge()
    g = br.g
    out = []
    tname = R.show(t)
    want = R.freeze(R.round_floats(v, t))
    try:
        ir = g.IR(uuid=uuid.UUID(int=0x2FFD))
        m = g.Module(name="m", uuid=uuid.UUID(int=0x2FFC), ir=ir)
        iv = br.to_impl(v, t, False)
        ir.aux_data["t"] = g.AuxData(iv, tname)
        m.aux_data["t"] = g.AuxData(br.to_impl(v, t, False), tname)
        buf = io.BytesIO()
        ir.save_protobuf_file(buf)
        ir2 = g.IR.load_protobuf_file(io.BytesIO(buf.getvalue()))
        for where, cont in (("ir", ir2), ("module", ir2.modules[0])):
            errs = []
            back = Bridge.from_impl(br, cont.aux_data["t"].data, t, errs, False)
            # (UUIDs of this scratch IR are unattached: plain UUIDs expected)
            if R.freeze(back) != want:
                out.append(("C07", "ir-save-load-value:" + where,
                            "table came back as %r" % (cont.aux_data["t"].data,)))
        # the value object handed to AuxData stays the table's value: an
        # in-place edit through the caller's reference between two saves
        # (no read of .data in between) must be written by the second save
        if isinstance(iv, (list, set, dict)) and len(iv):
            iv.clear()
            buf2 = io.BytesIO()
            ir.save_protobuf_file(buf2)
            ir3 = g.IR.load_protobuf_file(io.BytesIO(buf2.getvalue()))
            got = ir3.aux_data["t"].data
            if got != type(iv)():
                out.append(("C07", "ir-second-save-ignores-in-place-edit",
                            "value emptied through the caller's reference "
                            "after the first save; second save + load gives "
                            "%r" % (got,)))
        from gtirb.proto import IR_pb2

        pm = IR_pb2.IR()
        pm.ParseFromString(buf.getvalue()[8:])
        rb = R.encode(v, t)
        wb = bytes(pm.aux_data["t"].data)
        if (wb != rb) if not has_unordered(t) else (
                len(wb) != len(rb) or sorted(wb) != sorted(rb)):
            out.append(("C08", "ir-save-bytes",
                        "file holds %s, format prescribes %s"
                        % (wb.hex(), rb.hex())))
    except Exception as e:  # noqa
        out.append(("C07", "ir-save-load-exception:" + type(e).__name__,
                    repr(e)[:200]))
    return out


def instance_isolation():
    """`codecs` is documented as a per-instance table that may be extended or
    overridden: doing so on one Serialization object must not change any
    other (nor the library-wide AuxData.serializer)."""
    br = bridge()
    ser_mod = __import__("gtirb.serialization", fromlist=["x"])
    out = []
    glob = br.ser
    before = dict(glob.codecs)
    p = ser_mod.Serialization()
    marker = type("MarkerCodec", (ser_mod.Codec,), {})
    shared = p.codecs is glob.codecs
    p.codecs["string"] = marker
    p.codecs["verif_custom"] = marker
    p.codecs.pop("Offset", None)
    fresh = ser_mod.Serialization()
    leaked = [who for who, c in (("AuxData.serializer", glob.codecs),
                                  ("a fresh Serialization()", fresh.codecs))
              if c.get("string") is marker or "verif_custom" in c
              or "Offset" not in c]
    if leaked or shared:
        out.append(("C07", "codec-table-shared-between-instances",
                    "overriding codecs on one Serialization changed %s" % leaked))
        out.append(("C08", "codec-table-shared-between-instances",
                    "overriding codecs on one Serialization changed %s" % leaked))
        # undo, so that the remaining cases judge the codecs themselves
        glob.codecs.clear()
        glob.codecs.update(before)
    return out


def reentrancy_probe():
    """The lookup function and custom codecs are user code and may call back
    into the serializer (a forwarding table decoded lazily inside the lookup;
    a codec that reads another table).  The outer decode must still resolve
    every attached UUID."""
    br = bridge()
    g = br.g
    ser_mod = __import__("gtirb.serialization", fromlist=["x"])
    out = []
    ids = list(ATTACHED)
    outer = br.enc(ids + ids, "sequence<UUID>")
    inner = br.enc(ids[0], "UUID")
    calls = [0]

    def lookup(u):
        calls[0] += 1
        if calls[0] in (1, 3):
            br.ser.decode(inner, "UUID", br.ir.get_by_uuid)
            br.ser.decode(inner, "UUID", None)
        return br.ir.get_by_uuid(u)

    try:
        v = br.ser.decode(outer, "sequence<UUID>", lookup)
        if [type(x).__name__ for x in v] != [
                type(br.nodes[u]).__name__ for u in ids + ids] or any(
                    x is not br.nodes[u] for x, u in zip(v, ids + ids)):
            out.append(("C07", "resolution-lost-after-reentrant-decode",
                        "lookup called decode re-entrantly; outer result %r"
                        % ([type(x).__name__ for x in v],)))
    except Exception as e:  # noqa
        out.append(("C07", "reentrant-decode-raises:" + type(e).__name__,
                    repr(e)[:200]))
    # a custom codec (private instance) that decodes another value itself
    p = ser_mod.Serialization()

    class Note(ser_mod.Codec):
        @staticmethod
        def decode(raw_bytes, *, serialization=None, subtypes=(),
                   get_by_uuid=None):
            p.decode(inner, "UUID", br.ir.get_by_uuid)
            return raw_bytes.read(1)

        @staticmethod
        def encode(out_, item, *, serialization=None, subtypes=()):
            out_.write(item)

    p.codecs["verif_note"] = Note
    try:
        raw = (R.u64(3) + b"".join(b"n" + u.bytes for u in ids))
        v = p.decode(raw, "sequence<tuple<verif_note,UUID>>",
                     br.ir.get_by_uuid)
        if any(x[1] is not br.nodes[u] for x, u in zip(v, ids)):
            out.append(("C07", "resolution-lost-after-reentrant-decode",
                        "custom codec decoded another value; outer result "
                        "%r" % ([type(x[1]).__name__ for x in v],)))
    except Exception as e:  # noqa
        out.append(("C07", "reentrant-decode-raises:" + type(e).__name__,
                    repr(e)[:200]))
    return out


def work(task):
    label, types, k = task
    n = 0
    bad = []
    for prop, kind, detail in instance_isolation() + reentrancy_probe():
        bad.append((prop, kind, "string", "<codec table>", detail))
    ir_path = label.startswith("depth<=1")
    hangs = 0
    for ti, t in enumerate(types):
        if hangs >= 3 or len(bad) >= 40:
            break  # enough evidence from this batch; do not sit out timeouts
        if ti % 25 == 0:
            poison()
        for i, v in enumerate(vals(t, k)):
            n += 1
            try:
                with common.time_limit(20):
                    res = check_case(t, v, i + len(t[1]))
                    if ir_path or ti % 25 == 0:
                        n += 1
                        res = res + ir_path_case(t, v, i)
            except (common.Hang, MemoryError) as e:
                hangs += 1
                res = [("C07", "hang-or-unbounded-allocation:"
                        + type(e).__name__, str(e)),
                       ("C08", "hang-or-unbounded-allocation:"
                        + type(e).__name__, str(e))]
            for prop, kind, detail in res:
                if len(bad) < 40:
                    bad.append((prop, kind, R.show(t), repr(v)[:200], detail))
    return label, len(types), n, bad


LONG_SIZES_DENSE = list(range(0, 70))
LONG_SIZES = [127, 128, 129, 191, 192, 193, 255, 256, 257, 320, 511, 512, 513,
              1023, 1024, 1025, 1280, 2047, 2048, 2049, 4095, 4096, 4097]


def long_elements(name, n, distinct):
    """n values of leaf type `name` mixing boundary values (negatives, both
    bounds); pairwise distinct when `distinct` (set elements, mapping keys).
    Returns None when the type has fewer than n distinct values."""
    if name in R.INTS:
        nbytes, signed = R.INTS[name]
        bits = 8 * nbytes
        lo = -(1 << (bits - 1)) if signed else 0
        hi = (1 << (bits - 1)) - 1 if signed else (1 << bits) - 1
        span = hi - lo + 1
        if distinct and n > span:
            return None
        stride = max(1, span // max(n, 1) - 1) | 1
        # walks the whole range: hits lo, negatives, and values near hi
        return [lo + (i * stride) % span for i in range(n)] if distinct else \
            [(lo, -1 if signed else hi, hi, 0, 1, lo + 1)[i % 6] if i % 3 else
             lo + (i * stride) % span for i in range(n)]
    if name == "bool":
        if distinct and n > 2:
            return None
        return [bool(i % 2) for i in range(n)]
    if name in ("float", "double"):
        base = [0.5 * i - 7.25 for i in range(n)]
        if not distinct and n > 3:
            base[1] = float("inf")
            base[2] = -0.0
        return base
    if name == "string":
        return ["s%d\u00e9" % i if i % 5 else "k%d" % i for i in range(n)]
    if name == "UUID":
        br = bridge()
        br.ensure_nodes(n)
        return [uuid.UUID(int=_HI + 0x30000 + i) if i % 3 else
                uuid.UUID(int=_HI + 0x50000 + i) for i in range(n)]
    if name == "Offset":
        br = bridge()
        br.ensure_nodes(n)
        return [("Offset", uuid.UUID(int=_HI + 0x30000 + i) if i % 2 else
                 uuid.UUID(int=_HI + 0x50000 + i), i * 4096) for i in range(n)]
    return None


def long_cases(leafname, sizes):
    """(type, value) pairs with containers of n elements of that leaf"""
    lt = leaf(leafname)
    i64 = leaf("int64_t")
    for n in sizes:
        seq = long_elements(leafname, n, False)
        if seq is not None:
            yield ("sequence", (lt,)), list(seq)
            if n in (64, 256, 1024, 1025):
                # long container in the middle of a tuple / nested
                yield (("tuple", (("sequence", (lt,)), leaf("uint8_t"),
                                  ("sequence", (lt,)))),
                       (list(seq), 7, list(seq[:3])))
                yield (("sequence", (("sequence", (lt,)),)),
                       [list(seq), [], list(seq[:1])])
        if leafname in ("float", "double"):
            continue
        dis = long_elements(leafname, n, True)
        if dis is None:
            continue
        yield ("set", (lt,)), frozenset(dis)
        yield ("mapping", (lt, i64)), {k: -i for i, k in enumerate(dis)}
        if seq is not None:
            yield (("mapping", (i64, lt)),
                   {i - 3: x for i, x in enumerate(seq)})
        if n in (64, 65, 256, 1025) and leafname in ("UUID", "string"):
            yield (("mapping", (lt, ("set", (lt,)))),
                   {dis[0]: frozenset(dis), dis[-1]: frozenset()})


def work_long(task):
    leafname, sizes = task
    n = 0
    bad = []
    hangs = 0
    for t, v in long_cases(leafname, sizes):
        for idx in ((0, 1) if leafname in ("UUID", "Offset") else (0,)):
            if hangs >= 2:
                break  # enough evidence; do not sit out more timeouts
            n += 1
            try:
                with common.time_limit(30):
                    res = check_case(t, v, idx)
                    if len(v) in (64, 256, 1025) and idx == 0:
                        res = res + ir_path_case(t, v, idx)
            except (common.Hang, MemoryError) as e:
                hangs += 1
                res = [(p, "hang-or-unbounded-allocation:" + type(e).__name__,
                        str(e)) for p in ("C07", "C08")]
            for prop, kind, detail in res:
                if len(bad) < 40:
                    bad.append((prop, kind + ":n=%d" % len(v), R.show(t),
                                "<%d elements>" % len(v), detail))
    return leafname, n, bad


def work_leaf(task):
    """full leaf tables, alone and as one sequence"""
    name, full = task
    t = leaf(name)
    table = leaf_table(name, full)
    n = 0
    bad = []
    hangs = 0
    for i, v in enumerate(table):
        if hangs >= 2:
            break
        n += 1
        try:
            with common.time_limit(20):
                res = check_case(t, v, i)
        except (common.Hang, MemoryError) as e:
            hangs += 1
            res = [(p_, "hang-or-unbounded-allocation:" + type(e).__name__,
                    str(e)) for p_ in ("C07", "C08")]
        for prop, kind, detail in res:
            if len(bad) < 40:
                bad.append((prop, kind, name, repr(v)[:200], detail))
    seq = ("sequence", (t,))
    for lst in (list(table), list(reversed(table))):
        if hangs >= 2:
            break
        n += 1
        try:
            with common.time_limit(60):
                res = check_case(seq, lst, 1)
        except (common.Hang, MemoryError) as e:
            hangs += 1
            res = [(p_, "hang-or-unbounded-allocation:" + type(e).__name__,
                    str(e)) for p_ in ("C07", "C08")]
        for prop, kind, detail in res:
            if len(bad) < 40:
                bad.append((prop, kind, R.show(seq), "<whole table>", detail))
    return name, len(table), n, bad


# ------------------------------------------------------------------ java
JAVA_DIR = os.path.join(common.VERIF, "java")


def java_supported(t):
    nm, subs = t
    if nm in ("bool", "string", "UUID", "Offset", "float", "int8_t",
              "uint8_t", "int16_t", "uint16_t", "int32_t", "uint32_t",
              "int64_t", "uint64_t"):
        return True
    if nm in ("sequence", "set"):
        return java_supported(subs[0])
    if nm == "mapping":
        return all(java_supported(s) for s in subs)
    if nm == "tuple":
        return 1 <= len(subs) <= 5 and all(java_supported(s) for s in subs)
    if nm == "variant":
        return len(subs) in (2, 3) and all(java_supported(s) for s in subs)
    return False


def java_build(repo):
    """javac the repository's Java codec + XCheck into java/classes.
    Returns classpath or None when javac is unavailable."""
    import shutil

    if not shutil.which("javac") or not shutil.which("java"):
        return None
    out = os.path.join(JAVA_DIR, "classes", str(os.getpid()))
    os.makedirs(out, exist_ok=True)
    src = []
    base = os.path.join(repo, "java", "com", "grammatech", "gtirb")
    for sub in ("auxdatacodec", "tuple", "variant"):
        d = os.path.join(base, sub)
        src += [os.path.join(d, f) for f in sorted(os.listdir(d))
                if f.endswith(".java")]
    src += [os.path.join(base, "Util.java"), os.path.join(base, "Offset.java")]
    src += [os.path.join(JAVA_DIR, "XCheck.java")]
    stub = os.path.join(JAVA_DIR, "stub")
    for root, _, files in os.walk(stub):
        src += [os.path.join(root, f) for f in files if f.endswith(".java")]
    r = subprocess.run(["javac", "-nowarn", "-d", out] + src,
                       capture_output=True, text=True)
    if r.returncode != 0:
        raise RuntimeError("javac failed:\n" + r.stderr[-2000:])
    return out


def dump_canon(v, t):
    """canonical text of a reference value, the same text XCheck prints"""
    nm, subs = t
    if nm in R.INTS:
        size, signed = R.INTS[nm]
        return str(v)
    if nm == "bool":
        return "true" if v else "false"
    if nm == "float":
        return "f" + struct.pack(">f", v).hex()
    if nm == "string":
        return "s" + v.encode("utf-8").hex()
    if nm == "UUID":
        return "u" + v.hex
    if nm == "Offset":
        return "o" + v[1].hex + ":" + str(v[2])
    if nm == "sequence":
        return "[" + ",".join(dump_canon(x, subs[0]) for x in v) + "]"
    if nm == "set":
        return "{" + ",".join(sorted(dump_canon(x, subs[0]) for x in v)) + "}"
    if nm == "mapping":
        return "{" + ",".join(sorted(
            dump_canon(k, subs[0]) + "=" + dump_canon(x, subs[1])
            for k, x in v.items())) + "}"
    if nm == "tuple":
        return "(" + ",".join(dump_canon(x, s) for x, s in zip(v, subs)) + ")"
    if nm == "variant":
        return "v%d:" % v[1] + dump_canon(v[2], subs[v[1]])
    raise KeyError(nm)


def java_cases(tier):
    T0 = [leaf(n) for n in R.LEAVES if java_supported(leaf(n))]
    L1 = [t for t in containers(T0, T0) if java_supported(t)]
    reps = [leaf(n) for n in ("uint8_t", "int64_t", "bool", "float", "string",
                              "UUID", "Offset")]
    L1r = [t for t in containers(reps, reps) if java_supported(t)]
    types = T0 + L1
    types += [t for t in containers(L1, []) if java_supported(t)]
    if tier == "quick":
        small = reps[:4] + L1r[:40]
        types += [t for t in containers([], small) if java_supported(t)]
    else:
        types += [t for t in containers([], reps + L1r) if java_supported(t)]
    types += [t for t in containers([], [], reps[:4]) if java_supported(t)]
    types += [("tuple", tuple(reps[:4])), ("tuple", tuple(reps[:5]))]
    return types


def java_value_ok(v, t):
    """Java's decoders cannot represent some Python values (NaN as map keys
    are fine; variant<T,T> with equal alternatives is not constructible)."""
    nm, subs = t
    if nm in ("sequence", "set"):
        return all(java_value_ok(x, subs[0]) for x in v)
    if nm == "mapping":
        return all(java_value_ok(k, subs[0]) and java_value_ok(x, subs[1])
                   for k, x in v.items())
    if nm == "tuple":
        return all(java_value_ok(x, s) for x, s in zip(v, subs))
    if nm == "variant":
        return java_value_ok(v[2], subs[v[1]])
    return True


def java_crosscheck(ctx, repo, k):
    """Java decodes gtirb's bytes to the same canonical dump; gtirb decodes
    Java's re-encoding to the same value."""
    cp = java_build(repo)
    if cp is None:
        return {"java": "unavailable"}, []
    import shutil

    try:
        br = bridge()
        types = java_cases(ctx.tier)
        lines = []
        cases = []
        for t in types:
            tname = R.show(t)
            vs = vals(t, k)
            if not t[1]:
                vs = leaf_table(t[0], True)
            for i, v in enumerate(vs):
                if not java_value_ok(v, t):
                    continue
                try:
                    b = br.enc(br.to_impl(v, t, bool(i & 1)), tname)
                except Exception:  # noqa  (reported by the main pass)
                    continue
                cases.append((t, v, b))
                lines.append("%s %s" % (tname.replace(" ", ""), b.hex() or "-"))
        try:
            p = subprocess.run(
                ["java", "-Xss64m", "-Xmx2g", "-cp", cp, "XCheck"],
                input="\n".join(lines) + "\n", capture_output=True, text=True,
                timeout=240 if ctx.tier == "quick" else 1200)
        except subprocess.TimeoutExpired:
            # bytes that make the Java decoder loop on a bogus element count
            return {"java": "timeout", "java_cases": len(cases)}, [
                ("C08", "java-decoder-did-not-finish", "<batch>", "<batch>",
                 "the repository's Java codec did not finish decoding this "
                 "API's bytes within the time limit")]
        if p.returncode != 0:
            raise RuntimeError("XCheck failed: " + p.stderr[-2000:])
        outl = p.stdout.splitlines()
        if len(outl) != len(cases):
            raise RuntimeError("XCheck answered %d lines for %d cases"
                               % (len(outl), len(cases)))
        bad = []
        n_ok = 0
        for (t, v, b), line in zip(cases, outl):
            tname = R.show(t)
            parts = line.split(" ")
            if parts[0] == "ERR":
                bad.append(("C08", "java-cannot-decode", tname, repr(v)[:200],
                            line[:300]))
                continue
            if parts[0] == "UNSUPPORTED":
                continue
            dump, rehex = parts[1], parts[2]
            want = dump_canon(R.round_floats(v, t), t)
            if dump != want:
                bad.append(("C08", "java-decodes-differently", tname,
                            repr(v)[:200], "java %s want %s bytes %s"
                            % (dump[:200], want[:200], b.hex())))
                continue
            jb = bytes.fromhex("" if rehex == "-" else rehex)
            errs = []
            try:
                d = br.dec(jb, tname, True)
                back = br.from_impl(d, t, errs, True)
                if errs or R.freeze(back) != R.freeze(R.round_floats(v, t)):
                    bad.append(("C08", "decode-java-bytes", tname,
                                repr(v)[:200], "java bytes %s decoded %r"
                                % (jb.hex(), d)))
                    continue
            except Exception as e:  # noqa
                bad.append(("C08", "decode-java-bytes-exception:"
                            + type(e).__name__, tname, repr(v)[:200],
                            jb.hex()))
                continue
            n_ok += 1
        return {"java": "ok", "java_types": len(types),
                "java_cases": len(cases), "java_cases_agreeing": n_ok}, bad
    finally:
        shutil.rmtree(cp, ignore_errors=True)


# ------------------------------------------------------------------- run
def run(ctx):
    from .. import build

    prop = ctx.prop
    k = 3 if ctx.tier == "quick" else 4
    chunks = type_plan(ctx.tier)
    tasks = []
    plan_cov = []
    for label, types in chunks:
        plan_cov.append({"chunk": label, "types": len(types)})
        step = 400
        for i in range(0, len(types), step):
            tasks.append((label, types[i:i + step], k))
    ctx.rng.shuffle(tasks)
    n_types = n_cases = 0
    bad = []
    full = True if ctx.tier == "quick" else "16"
    for name, tl, n, b in common.pmap(work_leaf,
                                      [(nm, full) for nm in R.LEAVES],
                                      chunksize=1):
        n_cases += n
        bad += b
    if sum(1 for x in bad if x[1].startswith("hang-or-")) >= 6:
        tasks = []  # the tree hangs on plain leaf values: report, stop
    long_sizes = LONG_SIZES_DENSE + (LONG_SIZES if ctx.tier != "quick"
                                     else [s_ for s_ in LONG_SIZES
                                           if s_ <= 1280 or s_ == 4097])
    long_tasks = []
    for nm in R.LEAVES:
        long_tasks.append((nm, LONG_SIZES_DENSE))
        for s_ in long_sizes:
            if s_ >= 70:
                long_tasks.append((nm, [s_]))
    long_tasks.sort(key=lambda t: -max(t[1]))
    n_long = 0
    def many_hangs():
        return sum(1 for x in bad if x[1].startswith("hang-or-")) >= 6

    for name, n, b in common.pmap(work_long, long_tasks, chunksize=1):
        n_cases += n
        n_long += n
        bad += b
        if many_hangs():
            common.close_pool()
            break
    capped = False
    done = 0
    for label, nt, n, b in common.pmap(work, tasks, chunksize=1):
        n_types += nt
        n_cases += n
        bad += b
        done += 1
        if ctx.out_of_time(0.85) or many_hangs():
            capped = done < len(tasks)
            if capped:
                common.close_pool()
                break
    java_cov = {}
    if prop == "C08":
        try:
            java_cov, jb = java_crosscheck(ctx, build.REPO, k)
            bad += jb
        except Exception as e:  # noqa
            ctx.notes.append("java cross-check could not run: %r" % (e,))
            java_cov = {"java": "error"}
    # group: per (kind, leaf/unordered-container set), keep minimal sets
    mine = [x for x in bad if x[0] == prop]
    groups = {}
    for p_, kind, tname, vrepr, detail in mine:
        ls = leafset(R.parse(tname))
        key = (kind, ls)
        old = groups.get(key)
        if old is None or len(tname) < len(old[0]):
            groups[key] = (tname, vrepr, detail)
    for (kind, ls), (tname, vrepr, detail) in sorted(
            groups.items(), key=lambda kv: (len(kv[0][1]), len(kv[1][0]))):
        if any(k2 == kind and l2 < ls for (k2, l2) in groups):
            continue
        sig = "%s/%s:%s" % (prop, kind, ",".join(sorted(ls)))
        ctx.violation(sig, {"scenario": "codec", "type": tname,
                            "value": vrepr, "detail": detail, "kind": kind})
    cov = {
        "evaluations": n_cases + java_cov.get("java_cases", 0),
        "distinct_nontrivial": n_cases,
        "rule": "every type tree of the plan (below) is generated once and "
        "paired with up to k boundary values built from per-leaf tables "
        "(all 256 values for 8-bit integers, boundary and 2^k+-1 values for "
        "wider ones, every string of length <=3 over 8 characters incl. NUL, "
        "delimiters and 2/3/4-byte UTF-8); every (type, value) pair is "
        "distinct; all are non-trivial (each runs encode, reference encode, "
        "decode with and without node lookup, foreign-bytes decode and two "
        "framing checks)",
        "type_trees": n_types,
        "values_per_type": k,
        "long_container_cases": n_long,
        "long_container_sizes": "every length 0..69, then %s; per leaf type "
        "as sequence, set, mapping key and mapping value, and nested in a "
        "tuple / sequence / mapping<_,set<_>> at 64, 256, 1024, 1025"
        % (sorted(set(long_sizes) - set(LONG_SIZES_DENSE)),),
        "plan": plan_cov,
        "tasks_done": done,
        "tasks_total": len(tasks),
        "exhaustive": not capped,
        "samples": [
            {"type": R.show(t), "value": repr(vals(t, k)[0])[:120]}
            for t in (chunks[1][1][5], chunks[1][1][-1], chunks[-1][1][7])
        ],
    }
    cov.update(java_cov)
    return ctx.finish(
        "exploration", cov,
        ["mc/refcodec.py transcribes the AuxData.hpp serialization format",
         "set elements / mapping keys restricted to hashable Python values "
         "without NaN", "C++ codec not buildable here; Java codec used as "
         "second implementation for the types it supports (C08)"])


def replay(doc):
    import ast

    t = R.parse(doc["type"])
    hits = []
    for k in (3, 4):
        for i, v in enumerate(vals(t, k) if t[1] else leaf_table(t[0], "16")):
            if repr(v)[:200] == doc["value"] or doc["value"] == "<whole table>":
                hits += [x for x in check_case(t, v, i)
                         if x[0] == doc["property"]]
    for h in hits[:5]:
        print(h)
    print("type=%s value=%s -> %d discrepancies" % (doc["type"], doc["value"],
                                                     len(hits)))
    return 1 if hits else 0
