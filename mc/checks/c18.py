"""C18 - deep_eq is exact structural equality.

For a base IR specification, enumerate every single-field perturbation
(compared fields) and every uncompared change, build all variants through the
API and compare deep_eq on ALL ordered pairs with equality of the compared
content derived from the specifications."""

import copy
import io
import itertools

from .. import common, ircases, irgen
from . import c01

U = irgen.U


# ------------------------------------------------------------ compared content
def index(spec):
    return {n["uuid"]: (k, n) for k, n, _ in irgen.walk(spec)}


def block_snap(idx, u):
    if u is None or u not in idx:
        return ("missing", u)
    kind, n = idx[u]
    if kind == "proxy":
        return ("proxy", u.hex)
    if kind != "block":
        return (kind, u.hex)
    return (n["kind"], u.hex, n["offset"], n["size"],
            n["decode_mode"] if n["kind"] == "code" else None)


def symbol_snap(idx, u):
    kind, y = idx[u]
    p = y["payload"]
    pay = ("ref", block_snap(idx, p[1])) if p[0] == "ref" else tuple(p)
    return (u.hex, y["name"], pay, y["at_end"])


def expr_snap(idx, e):
    attrs = sorted(set(e["attrs"]))
    if e["kind"] == "const":
        return ("const", e["offset"], symbol_snap(idx, e["sym1"]), attrs)
    return ("addr", e["scale"], e["offset"], symbol_snap(idx, e["sym1"]),
            symbol_snap(idx, e["sym2"]), attrs)


def interval_snap(idx, b):
    return (b["uuid"].hex, b["address"], b["size"], b["contents"],
            sorted(block_snap(idx, k["uuid"]) for k in b["blocks"]),
            sorted((off, expr_snap(idx, e)) for off, e in b["symexprs"].items()))


def section_snap(idx, s):
    return (s["uuid"].hex, s["name"], sorted(set(s["flags"])),
            sorted(interval_snap(idx, b) for b in s["intervals"]))


def module_snap(idx, m):
    return (m["uuid"].hex, m["name"], m["binary_path"], m["isa"],
            m["file_format"], m["byte_order"], m["preferred_addr"],
            m["rebase_delta"],
            None if m["entry"] is None else block_snap(idx, m["entry"]),
            sorted(m["aux"]),
            sorted(p["uuid"].hex for p in m["proxies"]),
            sorted(section_snap(idx, s) for s in m["sections"]),
            sorted(symbol_snap(idx, y["uuid"]) for y in m["symbols"]))


def cfg_snap(idx, spec):
    return sorted(set((block_snap(idx, a), block_snap(idx, b), lab)
                      for a, b, lab in spec["cfg"]), key=repr)


def ir_snap(spec, pv):
    idx = index(spec)
    return (spec["uuid"].hex,
            pv if spec.get("version") is None else spec["version"],
            sorted(spec["aux"]),
            sorted(module_snap(idx, m) for m in spec["modules"]),
            cfg_snap(idx, spec))


def node_snap(spec, u):
    idx = index(spec)
    kind, n = idx[u]
    if kind in ("block", "proxy"):
        return block_snap(idx, u)
    if kind == "symbol":
        return symbol_snap(idx, u)
    if kind == "interval":
        return interval_snap(idx, n)
    if kind == "section":
        return section_snap(idx, n)
    if kind == "module":
        return module_snap(idx, n)
    return None


# ---------------------------------------------------------------- variants
def variants(base, enums, small=False):
    out = [("same", copy.deepcopy(base)), ("same-again", copy.deepcopy(base))]
    table = irgen.deviation_table(enums)
    out += list(irgen.deviations(base, table))
    out += irgen.expr_deviations(base, enums["SymAttribute"][:6])
    out += irgen.label_deviations(base, enums["EdgeType"][:3])
    nodes = list(irgen.walk(base))
    # every UUID changed (references follow)
    for i, (kind, n, _) in enumerate(nodes):
        s = irgen.replace_uuid(copy.deepcopy(base), n["uuid"], U(5000 + i))
        out.append(("uuid:%s[%d]" % (kind, i), s))
    # remove / add children
    referenced = set()
    for _, n, _ in nodes:
        if "symexprs" in n:
            for e in n["symexprs"].values():
                referenced.add(e["sym1"])
                referenced.add(e.get("sym2"))
        if n.get("entry"):
            referenced.add(n["entry"])
        if "payload" in n and n["payload"][0] == "ref":
            referenced.add(n["payload"][1])
    for a, b, _ in base["cfg"]:
        referenced.add(a)
        referenced.add(b)

    def drop(s, u):
        for m in s["modules"]:
            m["proxies"] = [p for p in m["proxies"] if p["uuid"] != u]
            m["symbols"] = [y for y in m["symbols"] if y["uuid"] != u]
            m["sections"] = [x for x in m["sections"] if x["uuid"] != u]
            for sec in m["sections"]:
                sec["intervals"] = [b for b in sec["intervals"]
                                    if b["uuid"] != u]
                for b in sec["intervals"]:
                    b["blocks"] = [k for k in b["blocks"] if k["uuid"] != u]

    for i, (kind, n, _) in enumerate(nodes):
        if kind in ("block", "symbol", "proxy") and n["uuid"] not in referenced:
            s = copy.deepcopy(base)
            drop(s, n["uuid"])
            out.append(("remove:%s[%d]" % (kind, i), s))
    s = copy.deepcopy(base)
    drop(s, s["modules"][0]["sections"][1]["uuid"])  # empty section
    out.append(("remove:empty-section", s))
    s = copy.deepcopy(base)
    s["modules"] = s["modules"][:1]
    s["cfg"] = [e for e in s["cfg"] if U(15) not in e[:2]]
    out.append(("remove:module[1]", s))
    for mi in range(len(base["modules"])):
        s = copy.deepcopy(base)
        s["modules"][mi]["proxies"].append({"uuid": U(6001)})
        out.append(("add:proxy@m%d" % mi, s))
        s = copy.deepcopy(base)
        s["modules"][mi]["symbols"].append(irgen.mk_symbol(6002, "new"))
        out.append(("add:symbol@m%d" % mi, s))
        s = copy.deepcopy(base)
        s["modules"][mi]["sections"].append(irgen.mk_section(6003, "new"))
        out.append(("add:section@m%d" % mi, s))
        for si in range(len(base["modules"][mi]["sections"])):
            s = copy.deepcopy(base)
            s["modules"][mi]["sections"][si]["intervals"].append(
                irgen.mk_interval(6004, address=None, size=0))
            out.append(("add:interval@m%d.s%d" % (mi, si), s))
            for bi in range(len(base["modules"][mi]["sections"][si]["intervals"])):
                for kind in ("code", "data"):
                    s = copy.deepcopy(base)
                    s["modules"][mi]["sections"][si]["intervals"][bi][
                        "blocks"].append(irgen.mk_block(kind, 6005))
                    out.append(("add:%s-block@m%d.s%d.b%d"
                                % (kind, mi, si, bi), s))
    s = copy.deepcopy(base)
    s["modules"].append(irgen.mk_module(6006, "extra"))
    out.append(("add:module", s))
    # edges
    edges = list(base["cfg"])
    for ei in range(len(edges)):
        s = copy.deepcopy(base)
        s["cfg"] = edges[:ei] + edges[ei + 1:]
        out.append(("remove:edge[%d]" % ei, s))
        a, b, lab = edges[ei]
        for newlab in ([None] if lab is not None else []) + [
                (0, False, False), (0, False, True), (0, True, False)]:
            if newlab == lab:
                continue
            s = copy.deepcopy(base)
            s["cfg"] = edges[:ei] + [(a, b, newlab)] + edges[ei + 1:]
            if len(set(s["cfg"])) == len(s["cfg"]):
                out.append(("edge[%d].label=%r" % (ei, newlab), s))
        s = copy.deepcopy(base)
        s["cfg"] = edges[:ei] + [(b, a, lab)] + edges[ei + 1:]
        if len(set(s["cfg"])) == len(s["cfg"]):
            out.append(("edge[%d].swapped" % ei, s))
    s = copy.deepcopy(base)
    s["cfg"] = edges + [(edges[0][0], edges[0][0], None)]
    out.append(("add:edge", s))
    s = copy.deepcopy(base)
    s["cfg"] = list(reversed(edges))
    out.append(("uncompared:edge-insertion-order", s))
    # expressions
    for _, n, _ in nodes:
        if not n.get("symexprs"):
            continue
        for off in sorted(n["symexprs"]):
            s = copy.deepcopy(base)
            tgt = index(s)[n["uuid"]][1]
            del tgt["symexprs"][off]
            out.append(("remove:expr@%d" % off, s))
            e = n["symexprs"][off]
            s = copy.deepcopy(base)
            tgt = index(s)[n["uuid"]][1]
            if e["kind"] == "const":
                tgt["symexprs"][off] = {"kind": "addr", "offset": e["offset"],
                                        "scale": 1, "sym1": e["sym1"],
                                        "sym2": e["sym1"], "attrs": e["attrs"]}
            else:
                tgt["symexprs"][off] = {"kind": "const", "offset": e["offset"],
                                        "sym1": e["sym1"], "attrs": e["attrs"]}
            out.append(("expr-kind-switch@%d" % off, s))
            s = copy.deepcopy(base)
            tgt = index(s)[n["uuid"]][1]
            tgt["symexprs"][off]["attrs"] = e["attrs"] + [424242]
            out.append(("expr-attr-added@%d" % off, s))
            if e["kind"] == "addr":
                s = copy.deepcopy(base)
                tgt = index(s)[n["uuid"]][1]
                ee = tgt["symexprs"][off]
                ee["sym1"], ee["sym2"] = ee["sym2"], ee["sym1"]
                if ee["sym1"] != ee["sym2"]:
                    out.append(("expr-symbols-swapped@%d" % off, s))
            s = copy.deepcopy(base)
            tgt = index(s)[n["uuid"]][1]
            tgt["symexprs"][off + 100] = tgt["symexprs"].pop(off)
            out.append(("expr-moved@%d" % off, s))
        break
    # payload / entry / block kind / version / aux keys
    for i, (kind, n, _) in enumerate(nodes):
        if kind == "symbol" and n["payload"][0] == "ref":
            for newp in (("none",), ("value", 0), ("ref", U(8)), ("ref", U(2))):
                if newp != n["payload"]:
                    s = copy.deepcopy(base)
                    list(irgen.walk(s))[i][1]["payload"] = newp
                    out.append(("payload:%s[%d]=%s" % (kind, i, newp[0]), s))
            break
    s = copy.deepcopy(base)
    s["modules"][0]["entry"] = None
    out.append(("entry=None", s))
    s = copy.deepcopy(base)
    s["modules"][0]["entry"] = U(3)
    out.append(("entry=other", s))
    s = copy.deepcopy(base)
    s["modules"][1]["entry"] = U(15)
    out.append(("entry-set@m1", s))
    for i, (kind, n, _) in enumerate(nodes):
        if kind == "block" and n["uuid"] not in (
                {a for a, _, _ in base["cfg"]} | {b for _, b, _ in base["cfg"]}
                | {m["entry"] for m in base["modules"]}):
            s = copy.deepcopy(base)
            blk = list(irgen.walk(s))[i][1]
            blk["kind"] = "data" if blk["kind"] == "code" else "code"
            blk["decode_mode"] = 0
            out.append(("block-kind-switch[%d]:%s" % (i, blk["kind"]), s))
    s = copy.deepcopy(base)
    s["version"] = 3
    out.append(("version=3", s))
    for where in ("ir", "m0"):
        tgt_of = (lambda s: s) if where == "ir" else (lambda s: s["modules"][0])
        s = copy.deepcopy(base)
        tgt_of(s)["aux"]["added"] = ("uint8_t", 1)
        out.append(("aux-key-added@" + where, s))
        s = copy.deepcopy(base)
        k = sorted(tgt_of(s)["aux"])[0]
        del tgt_of(s)["aux"][k]
        out.append(("aux-key-removed@" + where, s))
        s = copy.deepcopy(base)
        k = [k for k, (t, v) in tgt_of(s)["aux"].items()
             if not isinstance(v, bytes)][0]
        t, v = tgt_of(s)["aux"][k]
        tgt_of(s)["aux"][k] = ("sequence<uint8_t>", [9, 9])
        out.append(("uncompared:aux-value-changed@" + where, s))
    s = copy.deepcopy(base)
    s["modules"] = list(reversed(s["modules"]))
    out.append(("uncompared:module-order", s))
    # children moved / exchanged between the two modules (who owns what)
    if len(base["modules"]) >= 2:
        for field in ("proxies", "symbols", "sections"):
            for src, dst in ((0, 1), (1, 0)):
                cands = [c for c in base["modules"][src][field]
                         if c["uuid"] not in referenced
                         and not c.get("intervals")]
                if not cands:
                    continue
                s = copy.deepcopy(base)
                c = [x for x in s["modules"][src][field]
                     if x["uuid"] == cands[0]["uuid"]][0]
                s["modules"][src][field].remove(c)
                s["modules"][dst][field].append(c)
                out.append(("moved:%s m%d->m%d" % (field, src, dst), s))
        # exchange: one symbol of each module swaps owner (counts unchanged)
        a = [y for y in base["modules"][0]["symbols"]
             if y["uuid"] not in referenced]
        b = [y for y in base["modules"][1]["symbols"]]
        if a and b:
            s = copy.deepcopy(base)
            ya = [y for y in s["modules"][0]["symbols"]
                  if y["uuid"] == a[0]["uuid"]][0]
            s["modules"][0]["symbols"].remove(ya)
            s["modules"][1]["symbols"].append(ya)
            out.append(("moved:symbol m0->m1 (again)", s))
        s = copy.deepcopy(base)
        s["modules"][0]["proxies"].append({"uuid": U(6101)})
        s["modules"][1]["proxies"].append({"uuid": U(6102)})
        t = copy.deepcopy(base)
        t["modules"][0]["proxies"].append({"uuid": U(6102)})
        t["modules"][1]["proxies"].append({"uuid": U(6101)})
        out.append(("exchange:proxies-A", s))
        out.append(("exchange:proxies-B", t))
        s = copy.deepcopy(base)
        s["modules"][0]["sections"].append(irgen.mk_section(6103, "x"))
        s["modules"][1]["sections"].append(irgen.mk_section(6104, "x"))
        t = copy.deepcopy(base)
        t["modules"][0]["sections"].append(irgen.mk_section(6104, "x"))
        t["modules"][1]["sections"].append(irgen.mk_section(6103, "x"))
        out.append(("exchange:sections-A", s))
        out.append(("exchange:sections-B", t))
        s = copy.deepcopy(base)
        s["modules"][0]["symbols"].append(irgen.mk_symbol(6105, "x"))
        s["modules"][1]["symbols"].append(irgen.mk_symbol(6106, "x"))
        t = copy.deepcopy(base)
        t["modules"][0]["symbols"].append(irgen.mk_symbol(6106, "x"))
        t["modules"][1]["symbols"].append(irgen.mk_symbol(6105, "x"))
        out.append(("exchange:symbols-A", s))
        out.append(("exchange:symbols-B", t))
    if small:
        keep = [v for v in out if not v[0].startswith(("module[", "section[",
                                                       "symbol[", "interval["))]
        out = keep + out[2:40]
    return out


ORDER_OF = {}


def build_all(vs):
    import gtirb as g

    irs = []
    for i, (label, spec) in enumerate(vs):
        order = irgen.ORDERS[i % len(irgen.ORDERS)]
        if label.startswith("uncompared:edge-insertion-order"):
            order = "reversed"
        try:
            ir, nodes = irgen.build_ir(spec, order)
            if i % 7 == 3 and spec.get("version") is None:
                # every so often compare through a save/load copy
                _, ir = c01.roundtrip(ir)
                nodes = None
            irs.append((ir, nodes))
        except Exception as e:  # noqa
            irs.append((None, repr(e)))
    return irs


_BUILT = {}


def work(task):
    which, lo, hi, tier = task
    from gtirb.version import PROTOBUF_VERSION as PV

    key = (which, tier)
    if key not in _BUILT:
        base = base_spec(which, tier)
        vs = variants(base, ircases.enum_numbers(), small=which != "rich")
        irs = build_all(vs)
        snaps = [ir_snap(s, PV) for _, s in vs]
        cfgs = [cfg_snap(index(s), s) for _, s in vs]
        _BUILT[key] = (vs, irs, snaps, cfgs)
    vs, irs, snaps, cfgs = _BUILT[key]
    bad = []
    n = 0
    for i in range(lo, min(hi, len(vs))):
        a = irs[i][0]
        if a is None:
            bad.append(("C18/variant-not-buildable", "%s: %s" % (vs[i][0],
                                                                irs[i][1]),
                        vs[i][0]))
            continue
        for j in range(len(vs)):
            b = irs[j][0]
            if b is None:
                continue
            n += 1
            want = snaps[i] == snaps[j]
            try:
                got = a.deep_eq(b)
            except Exception as e:  # noqa
                bad.append(("C18/deep_eq-raises:%s" % type(e).__name__,
                            "%s vs %s" % (vs[i][0], vs[j][0]), vs[i][0]))
                continue
            if got is not want and got != want:
                if want:
                    kind = "false-for-equal-content:%s" % (
                        vs[i][0] if vs[i][0].startswith("uncompared") else
                        vs[j][0] if vs[j][0].startswith("uncompared") else
                        "copies")
                else:
                    other = vs[j][0] if vs[i][0].startswith(("same", "uncompared")) \
                        else vs[i][0]
                    kind = "true-for-different-content:%s" % classify(other)
                if len(bad) < 60:
                    bad.append(("C18/" + kind,
                                "%s .deep_eq( %s ) is %r, compared content %s"
                                % (vs[i][0], vs[j][0], got,
                                   "equal" if want else "differs"), vs[i][0]))
            wantc = cfgs[i] == cfgs[j]
            try:
                gotc = a.cfg.deep_eq(b.cfg)
            except Exception as e:  # noqa
                gotc = "raised %s" % type(e).__name__
            if gotc != wantc and len(bad) < 60:
                bad.append(("C18/cfg-deep_eq:%s" % (
                    "false-for-equal" if wantc else "true-for-different"),
                    "%s vs %s: %r" % (vs[i][0], vs[j][0], gotc), vs[i][0]))
        # node level against the base variant (index 0), matched by UUID
        if irs[0][1] is not None and irs[i][1] is not None:
            na, nb = irs[0][1], irs[i][1]
            for u, oa in na.items():
                ob = nb.get(u)
                if ob is None or u == vs[0][1]["uuid"]:
                    continue
                for x, y, sx, sy in ((oa, ob, vs[0][1], vs[i][1]),
                                     (ob, oa, vs[i][1], vs[0][1])):
                    n += 1
                    want = node_snap(sx, u) == node_snap(sy, u)
                    try:
                        got = x.deep_eq(y)
                    except Exception as e:  # noqa
                        got = "raised %s" % type(e).__name__
                    if got != want and len(bad) < 60:
                        bad.append((
                            "C18/node-deep_eq:%s:%s" % (
                                type(x).__name__,
                                "false-for-equal" if want else
                                "true-for-different:" + classify(vs[i][0])),
                            "%s of 'same' vs %s of %s: %r"
                            % (type(x).__name__, type(y).__name__, vs[i][0],
                               got), vs[i][0]))
    return n, bad


def work_history(task):
    """deep_eq must be a function of the two current object graphs only:
    compare, mutate one side in place through the API, compare again."""
    which, lo, hi, tier = task
    from gtirb.version import PROTOBUF_VERSION as PV

    base = base_spec(which, tier)
    vs = variants(base, ircases.enum_numbers(), small=which != "rich")
    bad = []
    n = 0
    target = irgen.U(1)  # a code block of the base IR
    for j in range(lo, min(hi, len(vs))):
        label, vspec = vs[j]
        try:
            a, an = irgen.build_ir(base, "topdown")
            b, bn = irgen.build_ir(vspec, "topdown")
        except Exception:  # noqa  (reported by work())
            continue
        if target not in an:
            continue
        for rnd in range(2):
            try:
                a.deep_eq(b)          # first comparison (any result)
                b.deep_eq(a)
            except Exception:  # noqa
                pass
            # in-place edit of one compared field on side a
            mut = copy.deepcopy(base)
            blk = index(mut)[target][1]
            if rnd == 0:
                an[target].size = an[target].size + 5
                blk["size"] += 5
            else:
                an[target].size = an[target].size + 5
                an[target].offset = an[target].offset + 1
                blk["size"] += 10
                blk["offset"] += 1
            cur = mut
            n += 1
            # node level first: an IR-level call could refresh hidden state
            for u, oa in an.items():
                ob = bn.get(u)
                if ob is None or u == base["uuid"]:
                    continue
                for x, y, sx, sy in ((oa, ob, cur, vspec), (ob, oa, vspec, cur)):
                    n += 1
                    want = node_snap(sx, u) == node_snap(sy, u)
                    try:
                        got = x.deep_eq(y)
                    except Exception as e:  # noqa
                        got = "raised %s" % type(e).__name__
                    if got != want and len(bad) < 40:
                        bad.append((
                            "C18/deep_eq-depends-on-earlier-calls:%s"
                            % type(x).__name__,
                            "after IR.deep_eq('same', %s) and an in-place "
                            "edit of a block, %s.deep_eq gives %r but the "
                            "compared content %s"
                            % (label, type(x).__name__, got,
                               "is equal" if want else "differs"), label))
            want = ir_snap(cur, PV) == ir_snap(vspec, PV)
            for x, y, tag in ((a, b, "ab"), (b, a, "ba")):
                try:
                    got = x.deep_eq(y)
                except Exception as e:  # noqa
                    got = "raised %s" % type(e).__name__
                if got != want and len(bad) < 40:
                    bad.append(("C18/deep_eq-after-in-place-edit:IR",
                                "IR.deep_eq %s after editing a block of 'same'"
                                " vs %s: %r, content %s"
                                % (tag, label, got,
                                   "equal" if want else "differs"), label))
    return n, bad


def classify(label):
    import re

    return re.sub(r"\[\d+\]", "[]", re.sub(r"=.*$", "", label))


def base_spec(which, tier):
    if which == "rich":
        return irgen.rich_base()
    cases = ircases.all_cases(tier, double=False)
    return dict(cases)[which]


def enum_pairs():
    """Every two declared constants of every enumeration of the API, by NAME
    (so that aliases show): two objects that differ only in that constant
    are not deep_eq, two that agree are.  Returns (n, bad)."""
    import uuid as uuidlib

    import gtirb as g

    u = [uuidlib.UUID(int=0xE0000 + i) for i in range(8)]
    A = g.SymbolicExpression.Attribute
    L, T = g.Edge.Label, g.Edge.Type

    def with_attr(a, two=False):
        y = g.Symbol("s", uuid=u[0])
        y2 = g.Symbol("t", uuid=u[1])
        b = g.ByteInterval(size=8, uuid=u[2])
        b.symbolic_expressions[0] = (
            g.SymAddrAddr(1, 2, y, y2, {a}) if two
            else g.SymAddrConst(3, y, {a}))
        return b

    def with_edge_type(t):
        ir = g.IR(uuid=u[3])
        m = g.Module(name="m", uuid=u[4], ir=ir)
        p, q = g.ProxyBlock(uuid=u[5], module=m), g.ProxyBlock(uuid=u[6],
                                                               module=m)
        ir.cfg.add(g.Edge(p, q, L(t, True, False)))
        return ir

    families = [
        ("SymbolicExpression.Attribute/SymAddrConst", A, with_attr),
        ("SymbolicExpression.Attribute/SymAddrAddr", A,
         lambda a: with_attr(a, True)),
        ("Edge.Type", T, with_edge_type),
        ("Module.ISA", g.Module.ISA,
         lambda v: g.Module(name="m", uuid=u[4], isa=v)),
        ("Module.FileFormat", g.Module.FileFormat,
         lambda v: g.Module(name="m", uuid=u[4], file_format=v)),
        ("Module.ByteOrder", g.Module.ByteOrder,
         lambda v: g.Module(name="m", uuid=u[4], byte_order=v)),
        ("Section.Flag", g.Section.Flag,
         lambda v: g.Section(name="s", uuid=u[7], flags={v})),
        ("CodeBlock.DecodeMode", g.CodeBlock.DecodeMode,
         lambda v: g.CodeBlock(size=1, uuid=u[7], decode_mode=v)),
    ]
    n = 0
    bad = []
    for fam, cls, mk in families:
        names = list(cls.__members__)
        for i, a in enumerate(names):
            for b in names[i:]:
                n += 1
                try:
                    x, y = mk(cls.__members__[a]), mk(cls.__members__[b])
                    got = (x.deep_eq(y), y.deep_eq(x))
                except Exception as e:  # noqa
                    bad.append(("C18/enum-constant-object-raises:%s:%s"
                                % (fam, type(e).__name__),
                                "%s vs %s: %r" % (a, b, e), "enum-pairs"))
                    continue
                want = a == b
                if got != (want, want):
                    bad.append(("C18/deep_eq-%s-for-%s-constants:%s"
                                % (got[0] and got[1], "equal" if want
                                   else "distinct", fam),
                                "objects differing only in %s.%s vs %s.%s: "
                                "deep_eq %r" % (fam, a, fam, b, got),
                                "enum-pairs"))
    return n, bad


def run(ctx):
    bases = ["rich"]
    shapes = [l for l, s in ircases.all_cases(ctx.tier, double=False)
              if l.startswith("shape") and len(s["modules"]) == 2
              and s["cfg"] and s["modules"][0]["symbols"]
              and s["modules"][0]["sections"]]
    step = max(1, len(shapes) // (3 if ctx.tier == "quick" else 40))
    tasks = []
    sizes = {}
    for which in bases:
        n = len(variants(base_spec(which, ctx.tier), ircases.enum_numbers()))
        sizes[which] = n
        tasks += [(which, lo, hi, ctx.tier)
                  for lo, hi in ircases.chunks(n, 12)]
    ctx.rng.shuffle(tasks)
    n = 0
    bad = []
    for k, b in common.pmap(work, tasks, chunksize=1):
        n += k
        bad += b
    n_hist = 0
    for k, b in common.pmap(work_history, tasks, chunksize=1):
        n_hist += k
        bad += b
    n += n_hist
    n_enum, b = enum_pairs()
    n += n_enum
    bad += b
    c01.report(ctx, bad)
    cov = {
        "states": sum(sizes.values()),
        "transitions": n,
        "traces_validated_against_impl": n,
        "variants_per_base": sizes,
        "compare_edit_compare_calls": n_hist,
        "enum_constant_pairs": n_enum,
        "exhaustive": True,
        "bound": "all ordered pairs of the variants of the 22-node base IR "
        "(every single compared-field perturbation, every uncompared change); "
        "node-level deep_eq for every node pair with equal UUID between the "
        "base and each variant, both directions",
        "samples": ["same vs uncompared:module-order",
                    "block-kind-switch[..]:data vs same", "edge[2].label=None"],
    }
    return ctx.finish(
        "model_checking", cov,
        ["a state is one variant IR; a transition one deep_eq call on real "
         "objects", "expected value: equality of the compared content derived "
         "from the two specifications (mc/checks/c18.py:ir_snap)"])


def replay(doc):
    from gtirb.version import PROTOBUF_VERSION as PV

    if doc["case"] == "enum-pairs":
        n, bad = enum_pairs()
        for s, d, _ in bad[:10]:
            print(s, "--", d)
        hit = any(s == doc["signature"] for s, _, _ in bad)
        print("reproduced" if hit else "NOT reproduced")
        return 1 if hit else 0
    vs = variants(irgen.rich_base(), ircases.enum_numbers())
    labels = [l for l, _ in vs]
    i = labels.index(doc["case"]) if doc["case"] in labels else 0
    n, bad = work(("rich", i, i + 1, doc.get("tier", "quick")))
    for s, d, _ in bad[:10]:
        print(s, "--", d)
    hit = any(s == doc["signature"] for s, _, _ in bad)
    print("reproduced" if hit else "NOT reproduced")
    return 1 if hit else 0
