"""A proto3-subset compiler: .proto text -> FileDescriptorProto -> *_pb2.py.

There is no protoc in this image.  This handles exactly the constructs that
occur in /repo/proto/*.proto and refuses anything else loudly:

  syntax, package, option java_package, import, top-level enum / message,
  scalar fields, repeated, map<K,V>, oneof, reserved numbers / names.

The emitted module uses the same builder calls protoc >= 3.20 emits, so the
classes are produced by the protobuf runtime itself from the descriptor.
"""

import re

from google.protobuf import descriptor_pb2 as dpb

F = dpb.FieldDescriptorProto

SCALARS = {
    "double": F.TYPE_DOUBLE,
    "float": F.TYPE_FLOAT,
    "int64": F.TYPE_INT64,
    "uint64": F.TYPE_UINT64,
    "int32": F.TYPE_INT32,
    "uint32": F.TYPE_UINT32,
    "bool": F.TYPE_BOOL,
    "string": F.TYPE_STRING,
    "bytes": F.TYPE_BYTES,
    "sint32": F.TYPE_SINT32,
    "sint64": F.TYPE_SINT64,
    "fixed32": F.TYPE_FIXED32,
    "fixed64": F.TYPE_FIXED64,
    "sfixed32": F.TYPE_SFIXED32,
    "sfixed64": F.TYPE_SFIXED64,
}


class ProtoSyntaxError(Exception):
    pass


TOKEN = re.compile(
    r"""\s*(?:(?P<str>"(?:[^"\\]|\\.)*")|(?P<id>[A-Za-z_][A-Za-z0-9_.]*)|"""
    r"""(?P<num>-?\d+)|(?P<sym>[{}<>=;,()\[\]]))"""
)


def tokenize(text):
    # strip comments
    text = re.sub(r"/\*.*?\*/", " ", text, flags=re.S)
    text = re.sub(r"//[^\n]*", " ", text)
    pos = 0
    out = []
    while True:
        m = re.compile(r"\s*").match(text, pos)
        pos = m.end()
        if pos >= len(text):
            break
        m = TOKEN.match(text, pos)
        if not m:
            raise ProtoSyntaxError("cannot tokenize at %r" % text[pos : pos + 30])
        pos = m.end()
        if m.group("str") is not None:
            out.append(("str", m.group("str")[1:-1]))
        elif m.group("id") is not None:
            out.append(("id", m.group("id")))
        elif m.group("num") is not None:
            out.append(("num", int(m.group("num"))))
        else:
            out.append(("sym", m.group("sym")))
    return out


def camel(name):
    return "".join(p[:1].upper() + p[1:] for p in name.split("_"))


class Parser:
    def __init__(self, text, file_name, import_prefix=""):
        self.toks = tokenize(text)
        self.i = 0
        self.fd = dpb.FileDescriptorProto()
        self.fd.name = file_name
        self.import_prefix = import_prefix
        # names of user types referenced, for later resolution
        self.pending = []  # (field_proto, type_name)

    def peek(self):
        return self.toks[self.i] if self.i < len(self.toks) else (None, None)

    def next(self):
        t = self.peek()
        if t[0] is None:
            raise ProtoSyntaxError("unexpected end of file")
        self.i += 1
        return t

    def expect(self, kind, val=None):
        t = self.next()
        if t[0] != kind or (val is not None and t[1] != val):
            raise ProtoSyntaxError(
                "expected %s %r, got %r (token %d)" % (kind, val, t, self.i)
            )
        return t[1]

    def parse(self):
        while self.peek()[0] is not None:
            k, v = self.next()
            if (k, v) == ("sym", ";"):
                continue
            if k != "id":
                raise ProtoSyntaxError("unexpected top-level token %r" % (v,))
            if v == "syntax":
                self.expect("sym", "=")
                s = self.expect("str")
                if s != "proto3":
                    raise ProtoSyntaxError("only proto3 supported")
                self.fd.syntax = "proto3"
                self.expect("sym", ";")
            elif v == "package":
                self.fd.package = self.expect("id")
                self.expect("sym", ";")
            elif v == "option":
                name = self.expect("id")
                self.expect("sym", "=")
                val = self.expect("str")
                if name != "java_package":
                    raise ProtoSyntaxError("unsupported option " + name)
                self.fd.options.java_package = val
                self.expect("sym", ";")
            elif v == "import":
                path = self.expect("str")
                self.fd.dependency.append(self.import_prefix + path)
                self.expect("sym", ";")
            elif v == "enum":
                self.parse_enum(self.fd.enum_type.add())
            elif v == "message":
                self.parse_message(self.fd.message_type.add())
            else:
                raise ProtoSyntaxError("unsupported top-level construct " + v)
        if self.fd.syntax != "proto3":
            raise ProtoSyntaxError("missing syntax = proto3")
        return self.fd

    def parse_enum(self, ed):
        ed.name = self.expect("id")
        self.expect("sym", "{")
        while self.peek() != ("sym", "}"):
            name = self.expect("id")
            if name in ("option", "reserved"):
                raise ProtoSyntaxError("unsupported in enum: " + name)
            self.expect("sym", "=")
            num = self.expect("num")
            self.expect("sym", ";")
            v = ed.value.add()
            v.name = name
            v.number = num
        self.expect("sym", "}")

    def parse_reserved(self, md):
        while True:
            k, v = self.next()
            if k == "num":
                rr = md.reserved_range.add()
                rr.start = v
                rr.end = v + 1
                if self.peek() == ("id", "to"):
                    raise ProtoSyntaxError("reserved ranges unsupported")
            elif k == "str":
                md.reserved_name.append(v)
            else:
                raise ProtoSyntaxError("bad reserved item %r" % (v,))
            k, v = self.next()
            if (k, v) == ("sym", ";"):
                return
            if (k, v) != ("sym", ","):
                raise ProtoSyntaxError("bad reserved separator %r" % (v,))

    def parse_field(self, md, first, oneof_index=None):
        label = F.LABEL_OPTIONAL
        tname = first
        if first == "repeated":
            label = F.LABEL_REPEATED
            tname = self.expect("id")
        elif first in ("optional", "required", "group", "extensions", "extend"):
            raise ProtoSyntaxError("unsupported field modifier " + first)
        if tname == "map":
            if label == F.LABEL_REPEATED or oneof_index is not None:
                raise ProtoSyntaxError("map field cannot be repeated/oneof")
            self.expect("sym", "<")
            ktype = self.expect("id")
            self.expect("sym", ",")
            vtype = self.expect("id")
            self.expect("sym", ">")
            fname = self.expect("id")
            self.expect("sym", "=")
            num = self.expect("num")
            self.expect("sym", ";")
            entry = md.nested_type.add()
            entry.name = camel(fname) + "Entry"
            entry.options.map_entry = True
            kf = entry.field.add()
            kf.name, kf.number, kf.label = "key", 1, F.LABEL_OPTIONAL
            kf.json_name = "key"
            self.set_type(kf, ktype)
            vf = entry.field.add()
            vf.name, vf.number, vf.label = "value", 2, F.LABEL_OPTIONAL
            vf.json_name = "value"
            self.set_type(vf, vtype)
            f = md.field.add()
            f.name, f.number, f.label = fname, num, F.LABEL_REPEATED
            f.type = F.TYPE_MESSAGE
            self.pending.append((f, "." + md.name + "." + entry.name, True))
            f.json_name = json_name(fname)
            return
        fname = self.expect("id")
        self.expect("sym", "=")
        num = self.expect("num")
        if self.peek() == ("sym", "["):
            raise ProtoSyntaxError("field options unsupported")
        self.expect("sym", ";")
        f = md.field.add()
        f.name, f.number, f.label = fname, num, label
        f.json_name = json_name(fname)
        self.set_type(f, tname)
        if oneof_index is not None:
            f.oneof_index = oneof_index

    def set_type(self, f, tname):
        if tname in SCALARS:
            f.type = SCALARS[tname]
        else:
            self.pending.append((f, tname, False))

    def parse_message(self, md):
        md.name = self.expect("id")
        self.expect("sym", "{")
        while self.peek() != ("sym", "}"):
            k, v = self.next()
            if (k, v) == ("sym", ";"):
                continue
            if k != "id":
                raise ProtoSyntaxError("unexpected token in message %r" % (v,))
            if v == "reserved":
                self.parse_reserved(md)
            elif v == "oneof":
                od = md.oneof_decl.add()
                od.name = self.expect("id")
                idx = len(md.oneof_decl) - 1
                self.expect("sym", "{")
                while self.peek() != ("sym", "}"):
                    t = self.expect("id")
                    self.parse_field(md, t, oneof_index=idx)
                self.expect("sym", "}")
            elif v in ("message", "enum", "option", "extensions", "extend"):
                raise ProtoSyntaxError("unsupported nested construct " + v)
            else:
                self.parse_field(md, v)
        self.expect("sym", "}")


def json_name(name):
    parts = name.split("_")
    return parts[0] + "".join(p[:1].upper() + p[1:] for p in parts[1:])


def compile_set(sources, import_prefix="gtirb/proto/"):
    """sources: dict base-name (e.g. 'CFG') -> proto text.
    Returns dict base-name -> FileDescriptorProto, with type references
    resolved across the set (all files share one package)."""
    parsers = {}
    for base, text in sources.items():
        p = Parser(text, import_prefix + base + ".proto", import_prefix)
        p.parse()
        parsers[base] = p
    # global symbol table
    kinds = {}
    owner = {}
    for base, p in parsers.items():
        pkg = p.fd.package
        for e in p.fd.enum_type:
            full = "." + pkg + "." + e.name
            if full in kinds:
                raise ProtoSyntaxError("duplicate symbol " + full)
            kinds[full] = "enum"
            owner[full] = p.fd.name
        for m in p.fd.message_type:
            full = "." + pkg + "." + m.name
            if full in kinds:
                raise ProtoSyntaxError("duplicate symbol " + full)
            kinds[full] = "message"
            owner[full] = p.fd.name
    for base, p in parsers.items():
        pkg = p.fd.package
        for f, tname, is_entry in p.pending:
            if is_entry:
                f.type_name = "." + pkg + tname[0:]
                continue
            full = "." + pkg + "." + tname
            if full not in kinds:
                raise ProtoSyntaxError(
                    "%s: unknown type %s" % (p.fd.name, tname)
                )
            if owner[full] != p.fd.name and owner[full] not in p.fd.dependency:
                raise ProtoSyntaxError(
                    "%s: type %s used without importing %s"
                    % (p.fd.name, tname, owner[full])
                )
            f.type_name = full
            f.type = F.TYPE_ENUM if kinds[full] == "enum" else F.TYPE_MESSAGE
    return {b: p.fd for b, p in parsers.items()}


PB2_TEMPLATE = '''# -*- coding: utf-8 -*-
# Generated by /verif/mc/miniprotoc.py from {source}.  DO NOT EDIT!
"""Generated protocol buffer code."""
from google.protobuf.internal import builder as _builder
from google.protobuf import descriptor as _descriptor
from google.protobuf import descriptor_pool as _descriptor_pool
from google.protobuf import symbol_database as _symbol_database

_sym_db = _symbol_database.Default()

{imports}

DESCRIPTOR = _descriptor_pool.Default().AddSerializedFile({blob!r})

_globals = globals()
_builder.BuildMessageAndEnumDescriptors(DESCRIPTOR, _globals)
_builder.BuildTopDescriptorsAndMessages(DESCRIPTOR, {modname!r}, _globals)
'''


def emit_pb2(fd, base):
    imports = []
    for dep in fd.dependency:
        mod = dep[: -len(".proto")].replace("/", ".") + "_pb2"
        pkg, leaf = mod.rsplit(".", 1)
        imports.append(
            "from %s import %s as %s" % (pkg, leaf, mod.replace(".", "_dot_"))
        )
    modname = fd.name[: -len(".proto")].replace("/", ".") + "_pb2"
    return PB2_TEMPLATE.format(
        source=fd.name,
        imports="\n".join(imports),
        blob=fd.SerializeToString(),
        modname=modname,
    )


def crosscheck(sources, fds):
    """Independent regex pass: every `name = number;` inside an enum and every
    field declaration of the text must be present in the descriptor."""
    for base, text in sources.items():
        text = re.sub(r"/\*.*?\*/", " ", text, flags=re.S)
        text = re.sub(r"//[^\n]*", " ", text)
        fd = fds[base]
        n_enum_vals = 0
        for m in re.finditer(r"\benum\s+(\w+)\s*\{([^}]*)\}", text):
            vals = re.findall(r"(\w+)\s*=\s*(-?\d+)\s*;", m.group(2))
            ed = [e for e in fd.enum_type if e.name == m.group(1)]
            if len(ed) != 1:
                raise ProtoSyntaxError("crosscheck: enum %s" % m.group(1))
            got = [(v.name, v.number) for v in ed[0].value]
            if got != [(a, int(b)) for a, b in vals]:
                raise ProtoSyntaxError(
                    "crosscheck: enum %s values differ" % m.group(1)
                )
            n_enum_vals += len(vals)
        # fields: count "= N;" occurrences outside enums
        no_enums = re.sub(r"\benum\s+\w+\s*\{[^}]*\}", " ", text)
        n_fields_text = len(re.findall(r"[\w>]\s+\w+\s*=\s*\d+\s*;", no_enums))
        n_fields_desc = sum(len(m.field) for m in fd.message_type)
        if n_fields_text != n_fields_desc:
            raise ProtoSyntaxError(
                "crosscheck: %s has %d field declarations in text, %d in "
                "descriptor" % (base, n_fields_text, n_fields_desc)
            )
