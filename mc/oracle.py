"""A whole-IR oracle: every lookup structure of one IR against a fresh scan of
its containment tree.  Works on any IR whose blocks and expressions lie inside
the declared extent of their intervals (then the answers at section, module
and IR scope are exact, not only bounded).  Returns a list of
(signature, detail); signatures start with the property the finding belongs
to.  Used on IRs obtained in ways the per-property explorations do not cover
by themselves: copy.deepcopy / pickle clones, loaded files, large built IRs."""

import itertools


def tree(ir):
    """public iteration -> dict of lists"""
    t = {"modules": list(ir.modules), "sections": [], "intervals": [],
         "blocks": [], "symbols": [], "proxies": []}
    for m in t["modules"]:
        t["sections"] += list(m.sections)
        t["symbols"] += list(m.symbols)
        t["proxies"] += list(m.proxies)
    for s in t["sections"]:
        t["intervals"] += list(s.byte_intervals)
    for b in t["intervals"]:
        t["blocks"] += list(b.blocks)
    return t


def same(got, want):
    got = list(got)
    return len(got) == len(want) and sorted(map(id, got)) == sorted(
        map(id, want))


def in_extent(t):
    for b in t["intervals"]:
        for k in b.blocks:
            # the first byte (the "at" position) must lie inside the extent,
            # and so must the whole block
            if k.offset + k.size > b.size or k.offset >= b.size:
                return False
        for o in b.symbolic_expressions:
            if o >= b.size:
                return False
    return True


def qrange(q):
    return range(q, q + 1) if isinstance(q, int) else q


def hit_on(r, a, size):
    return bool(size) and max(r.start, a) < min(r.stop, a + size)


def queries_for(points, cap=24):
    pts = sorted(set(points))
    if len(pts) > cap:
        step = len(pts) // cap + 1
        pts = pts[::step] + pts[-2:]
    qs = []
    for p in pts:
        qs += [p, p - 1]
    if pts:
        lo, hi = pts[0], pts[-1] + 2
        qs += [range(lo, hi), range(lo, hi, 8), range(lo + 1, hi, 16),
               range(lo, lo)]
    return qs


_OWNER_OF_CALL = (
    ("_blocks_", "C05"), ("byte_intervals_", "C06"), ("sections_on", "C06"),
    ("sections_at", "C06"), ("nodes_on", "C06"), ("nodes_at", "C06"),
    ("symbolic_expressions_at", "C13"), ("symbols_named", "C10"),
    ("references", "C10"), ("out_edges", "C11"), ("in_edges", "C11"),
    ("outgoing_edges", "C11"), ("incoming_edges", "C11"),
    ("get_by_uuid", "C03"), ("contains_", "C19"), ("contents", "C19"),
)


def check_ir(g, ir, props=None, others=(), light=False):
    """others: IRs whose nodes must never be returned by this IR; light:
    fewer query points (for use after every transition of an exploration).
    A lookup that RAISES is a finding of the property that owns the lookup
    (the parts after it stay unjudged in this call)."""
    out = []
    try:
        _check_ir(g, ir, props, others, light, out)
    except Exception as e:  # noqa
        import traceback

        tb = traceback.format_exc()
        lines = [ln for ln in tb.splitlines() if "gtirb" in ln and " in " in ln]
        text = " ".join(lines[-4:]) + " " + " ".join(
            ln for ln in tb.splitlines() if "oracle.py" in ln)
        owner = "C04"
        # the innermost oracle line tells which accessor was being read
        import re

        src = [ln.strip() for ln in tb.splitlines()
               if ln.startswith("    ") and not ln.strip().startswith("^")]
        for needle, p_ in _OWNER_OF_CALL:
            if any(needle in ln for ln in src[:6]):
                owner = p_
                break
        if props is None or owner in props:
            out.append(("%s/clone:lookup-raises:%s" % (owner,
                                                       type(e).__name__),
                        tb[-400:]))
    return out


def _check_ir(g, ir, props, others, light, out):
    cap_b, cap_i, cap_e = (6, 6, 4) if light else (24, 24, 12)

    def bad(sig, detail):
        if props is None or sig[:3] in props:
            out.append((sig, detail))

    t = tree(ir)
    mine = {id(ir)}
    for lst in t.values():
        mine.update(id(x) for x in lst)
    def part_on(*ps):
        return props is None or any(p_ in props for p_ in ps)

    # ---------------------------------------------------------------- C04
    if part_on("C04"):
        for m in t["modules"]:
            if m.ir is not ir:
                bad("C04/clone:ends-disagree", "module.ir")
            for x, attr in itertools.chain(
                    ((s, "module") for s in m.sections),
                    ((y, "module") for y in m.symbols),
                    ((p, "module") for p in m.proxies)):
                if getattr(x, attr) is not m or x.ir is not ir:
                    bad("C04/clone:ends-disagree", type(x).__name__)
        for s in t["sections"]:
            for b in s.byte_intervals:
                if b.section is not s or b.ir is not ir:
                    bad("C04/clone:ends-disagree", "interval")
                for k in b.blocks:
                    if k.byte_interval is not b or k.ir is not ir \
                            or k.section is not s or k.module is not s.module:
                        bad("C04/clone:ends-disagree", "block")
        for attr, want in (("sections", t["sections"]), ("symbols", t["symbols"]),
                           ("proxy_blocks", t["proxies"]),
                           ("byte_intervals", t["intervals"]),
                           ("byte_blocks", t["blocks"]),
                           ("code_blocks", [k for k in t["blocks"]
                                            if isinstance(k, g.CodeBlock)]),
                           ("data_blocks", [k for k in t["blocks"]
                                            if isinstance(k, g.DataBlock)]),
                           ("cfg_nodes", [k for k in t["blocks"]
                                          if isinstance(k, g.CodeBlock)]
                            + t["proxies"])):
            if not same(getattr(ir, attr), want):
                bad("C04/clone:derived-" + attr, "IR.%s differs from the tree"
                    % attr)
    # ---------------------------------------------------------------- C03
    if part_on("C03"):
        by_uuid = {}
        for lst in t.values():
            for x in lst:
                by_uuid[x.uuid] = x
        by_uuid[ir.uuid] = ir
        for u, x in by_uuid.items():
            r = ir.get_by_uuid(u)
            if r is not x:
                bad("C03/clone:%s" % ("missing-entry" if r is None else
                                      "entry-is-another-object"),
                    "get_by_uuid(%s) is %s" % (u, "None" if r is None else (
                        "a node of another IR" if id(r) not in mine
                        else "another node")))
        for o in others:
            for lst in tree(o).values():
                for x in lst:
                    r = ir.get_by_uuid(x.uuid)
                    if r is x:
                        bad("C03/clone:returns-node-of-another-ir", str(x.uuid))
    # ---------------------------------------------------------------- C19
    if part_on("C19"):
        for b in t["intervals"]:
            if b.initialized_size != len(b.contents):
                bad("C19/clone:initialized_size", "")
            data = bytes(b.contents)
            for k in b.blocks:
                want_addr = None if b.address is None else b.address + k.offset
                if k.address != want_addr:
                    bad("C19/clone:block-address",
                        "block.address %r, interval address + offset %r"
                        % (k.address, want_addr))
                if bytes(k.contents) != data[k.offset:k.offset + k.size]:
                    bad("C19/clone:block-contents", "")
                for off in (k.offset - 1, k.offset, k.offset + k.size - 1,
                            k.offset + k.size):
                    inside = k.offset <= off < k.offset + k.size
                    if bool(k.contains_offset(off)) != inside:
                        bad("C19/clone:contains_offset", "offset %d" % off)
                    if b.address is not None and bool(
                            k.contains_address(b.address + off)) != inside:
                        bad("C19/clone:contains_address", "offset %d" % off)
    if not in_extent(t):
        return
    # (the interval that LISTS the block, whatever the block's own
    # back-pointer says: C04 judges the back-pointer)
    owner = {id(k): b for b in t["intervals"] for k in b.blocks}
    # ---------------------------------------------------- C05 / C12 blocks
    if part_on("C05", "C12"):
        scopes = []
        for b in t["intervals"]:
            scopes.append((b, list(b.blocks), "ByteInterval"))
        for s in t["sections"]:
            scopes.append((s, [k for b in s.byte_intervals for k in b.blocks],
                           "Section"))
        for m in t["modules"]:
            scopes.append((m, [k for s in m.sections for b in s.byte_intervals
                               for k in b.blocks], "Module"))
        scopes.append((ir, t["blocks"], "IR"))
        pts = []
        for k in t["blocks"]:
            if owner[id(k)].address is not None:
                a = owner[id(k)].address + k.offset
                pts += [a, a + k.size]
        qs = queries_for(pts, cap_b)
        for scope, blocks, nm in scopes:
            for q in qs:
                r = qrange(q)
                for pre, cls in (("byte", None), ("code", g.CodeBlock),
                                 ("data", g.DataBlock)):
                    pool = [k for k in blocks
                            if (cls is None or isinstance(k, cls))
                            and owner[id(k)].address is not None]
                    on = [k for k in pool if hit_on(
                        r, owner[id(k)].address + k.offset, k.size)]
                    at = [k for k in pool
                          if (owner[id(k)].address + k.offset) in r]
                    if not same(getattr(scope, pre + "_blocks_on")(q), on):
                        bad("C05/clone:%s_blocks_on:%s" % (pre, nm),
                            "query %r" % (q,))
                    if not same(getattr(scope, pre + "_blocks_at")(q), at):
                        bad("C05/clone:%s_blocks_at:%s" % (pre, nm),
                            "query %r" % (q,))
        for b in t["intervals"]:
            bl = list(b.blocks)
            for q in queries_for([k.offset for k in bl]
                                 + [k.offset + k.size for k in bl], 8):
                r = qrange(q)
                if not same(b.byte_blocks_on_offset(q),
                            [k for k in bl if hit_on(r, k.offset, k.size)]):
                    bad("C05/clone:byte_blocks_on_offset", "query %r" % (q,))
                if not same(b.byte_blocks_at_offset(q),
                            [k for k in bl if k.offset in r]):
                    bad("C05/clone:byte_blocks_at_offset", "query %r" % (q,))
    # -------------------------------------------------------- C06 intervals
    if part_on("C06"):
        pts = []
        for b in t["intervals"]:
            if b.address is not None:
                pts += [b.address, b.address + b.size]
        qs = queries_for(pts, cap_i)
        iscopes = [(s, list(s.byte_intervals), "Section") for s in t["sections"]]
        iscopes += [(m, [b for s in m.sections for b in s.byte_intervals],
                     "Module") for m in t["modules"]]
        iscopes.append((ir, t["intervals"], "IR"))
        ext = {}
        for s in t["sections"]:
            ivs = list(s.byte_intervals)
            if ivs and all(b.address is not None for b in ivs):
                lo = min(b.address for b in ivs)
                ext[id(s)] = (lo, max(b.address + b.size for b in ivs) - lo)
            else:
                ext[id(s)] = (None, None)
            if (s.address, s.size) != ext[id(s)]:
                bad("C06/clone:section-extent", "(%r, %r) expected %r"
                    % (s.address, s.size, ext[id(s)]))
        for scope, ivs, nm in iscopes:
            for q in qs:
                r = qrange(q)
                on = [b for b in ivs if b.address is not None
                      and hit_on(r, b.address, b.size)]
                at = [b for b in ivs if b.address is not None and b.address in r]
                if not same(scope.byte_intervals_on(q), on):
                    bad("C06/clone:byte_intervals_on:" + nm, "query %r" % (q,))
                if not same(scope.byte_intervals_at(q), at):
                    bad("C06/clone:byte_intervals_at:" + nm, "query %r" % (q,))
        for scope, secs, nm in [(m, list(m.sections), "Module")
                                for m in t["modules"]] + [
                                    (ir, t["sections"], "IR")]:
            for q in qs:
                r = qrange(q)
                on = [s for s in secs if ext[id(s)][0] is not None
                      and hit_on(r, *ext[id(s)])]
                at = [s for s in secs if ext[id(s)][0] is not None
                      and ext[id(s)][0] in r]
                if not same(scope.sections_on(q), on):
                    bad("C06/clone:sections_on:" + nm, "query %r" % (q,))
                if not same(scope.sections_at(q), at):
                    bad("C06/clone:sections_at:" + nm, "query %r" % (q,))
    # ------------------------------------------------------ C13 expressions
    if part_on("C13"):
        escopes = [(b, [b], "ByteInterval") for b in t["intervals"]]
        escopes += [(s, list(s.byte_intervals), "Section") for s in t["sections"]]
        escopes += [(m, [b for s in m.sections for b in s.byte_intervals],
                     "Module") for m in t["modules"]]
        escopes.append((ir, t["intervals"], "IR"))
        pts = []
        for b in t["intervals"]:
            if b.address is not None:
                pts += [b.address + o for o in b.symbolic_expressions]
        qs = queries_for(pts, cap_e)
        for scope, ivs, nm in escopes:
            for q in qs:
                r = qrange(q)
                want = []
                for b in ivs:
                    if b.address is None:
                        continue
                    for o, e in b.symbolic_expressions.items():
                        if b.address + o in r:
                            want.append((id(b), o, id(e)))
                got = [(id(b), o, id(e))
                       for b, o, e in scope.symbolic_expressions_at(q)]
                if sorted(got) != sorted(want):
                    bad("C13/clone:symbolic_expressions_at:" + nm,
                        "query %r: %d triples, fresh scan %d"
                        % (q, len(got), len(want)))
    # ----------------------------------------------------------- C10 symbols
    if part_on("C10"):
        for m in t["modules"]:
            names = {}
            refs = {}
            for y in m.symbols:
                names.setdefault(y.name, []).append(y)
                if y.referent is not None:
                    refs.setdefault(id(y.referent), []).append(y)
            for nm_ in list(names) + ["no such name"]:
                if not same(m.symbols_named(nm_), names.get(nm_, [])):
                    bad("C10/clone:symbols_named", repr(nm_))
            for x in itertools.chain(
                    m.proxies, (k for s in m.sections for b in s.byte_intervals
                                for k in b.blocks)):
                if not same(x.references, refs.get(id(x), [])):
                    bad("C10/clone:references", type(x).__name__)
    # --------------------------------------------------------------- C11 cfg
    if part_on("C11"):
        edges = list(ir.cfg)
        if len(edges) != len(ir.cfg) or len(set(edges)) != len(edges):
            bad("C11/clone:iteration", "")
        nodes = {}
        for e in edges:
            nodes[id(e.source)] = e.source
            nodes[id(e.target)] = e.target
            if e not in ir.cfg:
                bad("C11/clone:membership", "")
        for nd in nodes.values():
            if set(ir.cfg.out_edges(nd)) != {e for e in edges
                                             if e.source is nd}:
                bad("C11/clone:out_edges", "")
            if set(ir.cfg.in_edges(nd)) != {e for e in edges if e.target is nd}:
                bad("C11/clone:in_edges", "")
            if id(nd) in mine:
                if set(nd.outgoing_edges) != {e for e in edges
                                              if e.source is nd}:
                    bad("C11/clone:outgoing_edges", "")
                if set(nd.incoming_edges) != {e for e in edges
                                              if e.target is nd}:
                    bad("C11/clone:incoming_edges", "")
