"""Independent AuxData codec, transcribed from the "Serialization Format"
comment and the auxdata_traits specialisations of include/gtirb/AuxData.hpp
and from AuxData.md.  Imports nothing from gtirb.

Value representation (plain Python):
  integers / Addr  int            bool  bool          float,double  float
  string           str            UUID  uuid.UUID     Offset  ("Offset", UUID, int)
  sequence<T>      list           set<T> frozenset / set
  mapping<K,V>     dict           tuple<...> tuple    variant<...> ("Variant", idx, val)
"""

import struct
import uuid

INTS = {
    "uint8_t": (1, False), "uint16_t": (2, False), "uint32_t": (4, False),
    "uint64_t": (8, False), "int8_t": (1, True), "int16_t": (2, True),
    "int32_t": (4, True), "int64_t": (8, True), "Addr": (8, False),
}
LEAVES = list(INTS) + ["bool", "float", "double", "string", "UUID", "Offset"]
CONTAINERS = ["sequence", "set", "mapping", "tuple", "variant"]


class RefError(Exception):
    pass


def parse(s):
    """type name -> (name, (subtrees...)); raises RefError"""
    n = len(s)

    def T(i):
        j = i
        while j < n and s[j] not in "<>,":
            j += 1
        if j == i:
            raise RefError("bad type name %r" % s)
        nm = s[i:j]
        if j < n and s[j] == "<":
            subs = []
            k = j + 1
            while True:
                t, k = T(k)
                subs.append(t)
                if k < n and s[k] == ",":
                    k += 1
                elif k < n and s[k] == ">":
                    return (nm, tuple(subs)), k + 1
                else:
                    raise RefError("bad type name %r" % s)
        return (nm, ()), j

    t, k = T(0)
    if k != n:
        raise RefError("bad type name %r" % s)
    return t


def show(t):
    nm, subs = t
    return nm if not subs else nm + "<" + ",".join(show(x) for x in subs) + ">"


def u64(n):
    return struct.pack("<Q", n)


def encode(v, t):
    """-> bytes (sets / mappings in iteration order of v)"""
    nm, subs = t
    if nm in INTS:
        size, signed = INTS[nm]
        return int(v).to_bytes(size, "little", signed=signed)
    if nm == "bool":
        return b"\x01" if v else b"\x00"
    if nm == "float":
        return struct.pack("<f", v)
    if nm == "double":
        return struct.pack("<d", v)
    if nm == "string":
        b = v.encode("utf-8")
        return u64(len(b)) + b
    if nm == "UUID":
        return v.bytes
    if nm == "Offset":
        return v[1].bytes + u64(v[2])
    if nm in ("sequence", "set"):
        return u64(len(v)) + b"".join(encode(x, subs[0]) for x in v)
    if nm == "mapping":
        return u64(len(v)) + b"".join(
            encode(k, subs[0]) + encode(x, subs[1]) for k, x in v.items()
        )
    if nm == "tuple":
        if len(v) != len(subs):
            raise RefError("tuple arity")
        return b"".join(encode(x, s) for x, s in zip(v, subs))
    if nm == "variant":
        return u64(v[1]) + encode(v[2], subs[v[1]])
    raise RefError("unknown type " + nm)


class Reader:
    def __init__(self, b):
        self.b = bytes(b)
        self.i = 0

    def take(self, n):
        if self.i + n > len(self.b):
            raise RefError("truncated")
        r = self.b[self.i : self.i + n]
        self.i += n
        return r


def decode_from(r, t):
    nm, subs = t
    if nm in INTS:
        size, signed = INTS[nm]
        return int.from_bytes(r.take(size), "little", signed=signed)
    if nm == "bool":
        return r.take(1) != b"\x00"
    if nm == "float":
        return struct.unpack("<f", r.take(4))[0]
    if nm == "double":
        return struct.unpack("<d", r.take(8))[0]
    if nm == "string":
        n = struct.unpack("<Q", r.take(8))[0]
        try:
            return r.take(n).decode("utf-8")
        except UnicodeDecodeError as e:
            raise RefError("string bytes are not UTF-8: %s" % e)
    if nm == "UUID":
        return uuid.UUID(bytes=r.take(16))
    if nm == "Offset":
        u = uuid.UUID(bytes=r.take(16))
        return ("Offset", u, struct.unpack("<Q", r.take(8))[0])
    if nm == "sequence":
        n = struct.unpack("<Q", r.take(8))[0]
        return [decode_from(r, subs[0]) for _ in range(n)]
    if nm == "set":
        n = struct.unpack("<Q", r.take(8))[0]
        return frozenset(decode_from(r, subs[0]) for _ in range(n))
    if nm == "mapping":
        n = struct.unpack("<Q", r.take(8))[0]
        d = {}
        for _ in range(n):
            k = decode_from(r, subs[0])
            d[k] = decode_from(r, subs[1])
        return d
    if nm == "tuple":
        return tuple(decode_from(r, s) for s in subs)
    if nm == "variant":
        i = struct.unpack("<Q", r.take(8))[0]
        if i >= len(subs):
            raise RefError("variant index")
        return ("Variant", i, decode_from(r, subs[i]))
    raise RefError("unknown type " + nm)


def decode(b, t):
    r = Reader(b)
    v = decode_from(r, t)
    if r.i != len(r.b):
        raise RefError("trailing bytes: consumed %d of %d" % (r.i, len(r.b)))
    return v


def freeze(v):
    """hashable, order-insensitive canonical form; floats by bit pattern"""
    if isinstance(v, float):
        return ("f", struct.pack("<d", v))
    if isinstance(v, list):
        return ("L",) + tuple(freeze(x) for x in v)
    if isinstance(v, tuple):
        return ("T",) + tuple(freeze(x) for x in v)
    if isinstance(v, (set, frozenset)):
        return ("S", frozenset(freeze(x) for x in v))
    if isinstance(v, dict):
        return ("M", frozenset((freeze(k), freeze(x)) for k, x in v.items()))
    if isinstance(v, bool):
        return ("b", v)
    return v


def to_f32(x):
    return struct.unpack("<f", struct.pack("<f", x))[0]


def round_floats(v, t):
    """value as it must come back: float32 leaves rounded to float32"""
    nm, subs = t
    if nm == "float":
        return to_f32(v)
    if nm == "sequence":
        return [round_floats(x, subs[0]) for x in v]
    if nm == "set":
        return frozenset(round_floats(x, subs[0]) for x in v)
    if nm == "mapping":
        return {round_floats(k, subs[0]): round_floats(x, subs[1])
                for k, x in v.items()}
    if nm == "tuple":
        return tuple(round_floats(x, s) for x, s in zip(v, subs))
    if nm == "variant":
        return ("Variant", v[1], round_floats(v[2], subs[v[1]]))
    return v
