"""Shared runner pieces: context, violations, known findings, evidence,
process pool."""

import hashlib
import json
import multiprocessing
import os
import random
import sys
import time

VERIF = os.path.dirname(os.path.dirname(os.path.abspath(__file__)))
EVIDENCE_DIR = os.path.join(VERIF, "evidence")
REPLAY_DIR = os.path.join(VERIF, "replays")
if os.environ.get("GTIRB_VERIF_REPO"):
    # mutation / seeded-change runs against a scratch copy: never touch the
    # committed evidence or the replays of the real tree
    EVIDENCE_DIR = os.path.join(VERIF, ".stage", "alt", "evidence")
    REPLAY_DIR = os.path.join(VERIF, ".stage", "alt", "replays")
KNOWN_FILE = os.path.join(VERIF, "known_findings.json")

NPROC = int(os.environ.get("VERIF_NPROC", "0")) or min(16, os.cpu_count() or 1)


def jsonable(x):
    """Best-effort conversion for replay/evidence files."""
    import enum
    import uuid

    if x is None or isinstance(x, (bool, int, str)):
        return x
    if isinstance(x, float):
        return repr(x)
    if isinstance(x, (bytes, bytearray)):
        return {"hex": bytes(x).hex()}
    if isinstance(x, uuid.UUID):
        return {"uuid": x.hex}
    if isinstance(x, enum.Enum):
        return {"enum": "%s.%s" % (type(x).__name__, x.name)}
    if isinstance(x, range):
        return {"range": [x.start, x.stop, x.step]}
    if isinstance(x, dict):
        return {
            (k if isinstance(k, str) else json.dumps(jsonable(k))): jsonable(v)
            for k, v in x.items()
        }
    if isinstance(x, (list, tuple)):
        return [jsonable(v) for v in x]
    if isinstance(x, (set, frozenset)):
        return {"set": sorted((jsonable(v) for v in x), key=repr)}
    return repr(x)


class Known:
    """known_findings.json: committed, never written at run time."""

    def __init__(self):
        self.findings = []
        if os.path.exists(KNOWN_FILE):
            with open(KNOWN_FILE) as f:
                doc = json.load(f)
            self.findings = doc.get("known_findings", [])

    def match(self, prop, signature):
        for k in self.findings:
            if k.get("property") == prop and k.get("signature") == signature:
                return k
        return None


class Ctx:
    """One check run for one property."""

    def __init__(self, prop, tier, seed=None):
        self.prop = prop
        self.tier = tier
        if seed is None:
            seed = int(os.environ.get("VERIF_SEED", "0") or 0)
        self.seed = seed
        self.rng = random.Random(seed)
        self.t0 = time.time()
        default_budget = 150 if tier == "quick" else 1500
        self.budget = float(os.environ.get("VERIF_BUDGET", default_budget))
        self.known = Known()
        self.violations = {}  # signature -> first payload
        self.violation_count = 0
        self.known_hits = {}
        self.unreproduced = []
        self.notes = []
        self.extra_cov = {}
        # replays of earlier runs of this property are stale now
        import glob

        for old in glob.glob(os.path.join(REPLAY_DIR, prop + "-*.json")):
            try:
                os.remove(old)
            except OSError:
                pass

    def elapsed(self):
        return time.time() - self.t0

    def out_of_time(self, frac=1.0):
        return self.elapsed() > self.budget * frac

    def violation(self, signature, payload):
        """Record one violation (already passed the determinism gate).
        payload must be JSON-able and contain what --replay needs."""
        self.violation_count += 1
        k = self.known.match(self.prop, signature)
        if k is not None:
            if signature not in self.known_hits:
                self.known_hits[signature] = k
                print(
                    "KNOWN-FINDING: property=%s %s"
                    % (self.prop, k.get("what", signature)),
                    flush=True,
                )
            return
        if signature in self.violations:
            return
        self.violations[signature] = payload
        if len(self.violations) > 25:
            return
        os.makedirs(REPLAY_DIR, exist_ok=True)
        doc = dict(payload)
        doc["property"] = self.prop
        doc["signature"] = signature
        doc.setdefault("tier", getattr(self, "tier", "quick"))
        digest = hashlib.sha1(
            (self.prop + "|" + signature).encode()
        ).hexdigest()[:12]
        path = os.path.join(REPLAY_DIR, "%s-%s.json" % (self.prop, digest))
        with open(path, "w") as f:
            json.dump(jsonable(doc), f, indent=1, sort_keys=True)
        print("VIOLATION property=%s replay=%s" % (self.prop, path), flush=True)
        print("  signature: %s" % signature, flush=True)

    def finish(self, level, coverage, assumptions=()):
        cov = dict(coverage)
        cov.update(self.extra_cov)
        if isinstance(cov.get("samples"), list) and not cov["samples"]:
            # (a run cut off before any successor state was stored)
            sw = self.extra_cov.get("scale_sweep") or {}
            cov["samples"] = [{"script": s_, "sizes": sw.get("sizes", [])[:5]}
                              for s_ in sw.get("scripts", [])[:3]] or [
                                  {"initial_states_only": True}]
        cov.setdefault("exhaustive", False)
        cov["distinct_violation_signatures"] = len(self.violations)
        cov["known_finding_signatures"] = sorted(self.known_hits)
        if self.unreproduced:
            cov["unreproduced"] = self.unreproduced[:10]
            print("NOTE: %d finding(s) of a worker did not reproduce on "
                  "replay and were dropped (see 'unreproduced' in the "
                  "evidence): %r" % (len(self.unreproduced),
                                      self.unreproduced[:3]), flush=True)
        if self.notes:
            cov["notes"] = self.notes
        ev = {
            "property_id": self.prop,
            "tier": self.tier,
            "seed": self.seed,
            "level": level,
            "coverage": jsonable(cov),
            "assumptions": list(assumptions),
            "wall_s": round(self.elapsed(), 3),
            "violations": len(self.violations),
        }
        os.makedirs(EVIDENCE_DIR, exist_ok=True)
        path = os.path.join(EVIDENCE_DIR, self.prop + ".json")
        tmp = path + ".tmp%d" % os.getpid()
        with open(tmp, "w") as f:
            json.dump(ev, f, indent=1, sort_keys=True)
        os.replace(tmp, path)
        summary = {
            k: v
            for k, v in cov.items()
            if isinstance(v, (int, float, bool)) and not isinstance(v, dict)
        }
        print(
            "%s %s: %s wall=%.1fs violations=%d known=%d"
            % (
                self.prop,
                self.tier,
                json.dumps(summary, sort_keys=True),
                self.elapsed(),
                len(self.violations),
                len(self.known_hits),
            ),
            flush=True,
        )
        return 1 if self.violations else 0


_pool = None


class Hang(BaseException):
    """raised inside a worker when one step exceeds its time limit.  Derives
    from BaseException so that no `except Exception` on the way up (in the
    library or in a harness) can swallow it and leave a loop running with the
    one-shot timer already spent."""


class time_limit:
    """with time_limit(s): ... raises Hang in the body after s seconds (main
    thread of a process only).  A mutated library may loop for ever or try to
    allocate without bound; a check must turn that into a violation, not hang."""

    def __init__(self, seconds):
        self.seconds = seconds

    def _fire(self, signum, frame):
        raise Hang("step exceeded %ss" % self.seconds)

    def __enter__(self):
        import signal

        self.old = signal.signal(signal.SIGALRM, self._fire)
        signal.setitimer(signal.ITIMER_REAL, self.seconds)
        return self

    def __exit__(self, *exc):
        import signal

        signal.setitimer(signal.ITIMER_REAL, 0)
        signal.signal(signal.SIGALRM, self.old)
        return False


def _worker_init():
    # kill -USR1 <worker pid> prints that worker's Python stack (debugging aid)
    try:
        import faulthandler
        import signal

        faulthandler.register(signal.SIGUSR1, all_threads=False)
    except Exception:  # noqa
        pass
    # address-space cap per worker: an unbounded allocation in the library
    # becomes a MemoryError (reported as a violation by the check) instead of
    # taking the machine down
    try:
        import resource

        cap = int(os.environ.get("VERIF_WORKER_MEM_GB", "6")) << 30
        resource.setrlimit(resource.RLIMIT_AS, (cap, cap))
    except Exception:  # noqa
        pass


def pool():
    global _pool
    if _pool is None:
        ctx = multiprocessing.get_context("fork")
        _pool = ctx.Pool(NPROC, initializer=_worker_init)
    return _pool


def close_pool():
    global _pool
    if _pool is not None:
        _pool.terminate()
        _pool.join()
        _pool = None


def pmap(func, items, chunksize=None):
    """Unordered parallel map over a list; yields results."""
    items = list(items)
    if NPROC <= 1 or len(items) <= 1:
        for it in items:
            yield func(it)
        return
    if chunksize is None:
        chunksize = max(1, min(64, len(items) // (NPROC * 8) or 1))
    for r in pool().imap_unordered(func, items, chunksize):
        yield r


def die_infra(msg):
    print("INFRASTRUCTURE-ERROR: " + msg, file=sys.stderr, flush=True)
    sys.exit(2)
