import com.grammatech.gtirb.Offset;
import com.grammatech.gtirb.Util;
import com.grammatech.gtirb.auxdatacodec.*;
import com.grammatech.gtirb.tuple.*;
import com.grammatech.gtirb.variant.*;
import java.io.*;
import java.nio.charset.StandardCharsets;
import java.util.*;

/**
 * Reads "<type> <hex|->" lines; for each, decodes the bytes with the
 * repository's Java AuxData codecs, prints a canonical dump of the value and
 * the hex of Java's own re-encoding:  "OK <dump> <hex|->", "ERR <msg>" or
 * "UNSUPPORTED".
 */
@SuppressWarnings({"unchecked", "rawtypes"})
public class XCheck {
    static class Ty {
        String name;
        List<Ty> subs = new ArrayList<>();
    }

    static int pos;

    static Ty parse(String s) {
        pos = 0;
        Ty t = parseT(s);
        if (pos != s.length())
            throw new IllegalArgumentException("bad type " + s);
        return t;
    }

    static Ty parseT(String s) {
        int j = pos;
        while (j < s.length() && "<>,".indexOf(s.charAt(j)) < 0)
            j++;
        Ty t = new Ty();
        t.name = s.substring(pos, j);
        pos = j;
        if (pos < s.length() && s.charAt(pos) == '<') {
            pos++;
            while (true) {
                t.subs.add(parseT(s));
                char c = s.charAt(pos++);
                if (c == ',')
                    continue;
                if (c == '>')
                    break;
                throw new IllegalArgumentException("bad type " + s);
            }
        }
        return t;
    }

    static Codec codec(Ty t) {
        switch (t.name) {
        case "bool": return new BoolCodec();
        case "string": return new StringCodec();
        case "UUID": return new UuidCodec();
        case "Offset": return new OffsetCodec();
        case "float": return new FloatCodec();
        case "int8_t": return ByteCodec.INT8;
        case "uint8_t": return ByteCodec.UINT8;
        case "int16_t": return ShortCodec.INT16;
        case "uint16_t": return ShortCodec.UINT16;
        case "int32_t": return IntegerCodec.INT32;
        case "uint32_t": return IntegerCodec.UINT32;
        case "int64_t": return LongCodec.INT64;
        case "uint64_t": return LongCodec.UINT64;
        case "sequence": return new ListCodec(codec(t.subs.get(0)), ArrayList::new);
        case "set": return new SetCodec(codec(t.subs.get(0)), LinkedHashSet::new);
        case "mapping":
            return new MapCodec(codec(t.subs.get(0)), codec(t.subs.get(1)), LinkedHashMap::new);
        case "tuple": {
            List<Codec> c = new ArrayList<>();
            for (Ty s : t.subs) c.add(codec(s));
            switch (c.size()) {
            case 1: return new Tuple1Codec(c.get(0), (a) -> new Tuple1<Object>(a) {});
            case 2: return new Tuple2Codec(c.get(0), c.get(1), (a, b) -> new Tuple2<Object, Object>(a, b) {});
            case 3:
                return new Tuple3Codec(c.get(0), c.get(1), c.get(2),
                                       (a, b, d) -> new Tuple3<Object, Object, Object>(a, b, d) {});
            case 4:
                return new Tuple4Codec(c.get(0), c.get(1), c.get(2), c.get(3),
                                       (a, b, d, e) -> new Tuple4<Object, Object, Object, Object>(a, b, d, e) {});
            case 5:
                return new Tuple5Codec(c.get(0), c.get(1), c.get(2), c.get(3), c.get(4),
                                       (a, b, d, e, f) -> new Tuple5<Object, Object, Object, Object, Object>(a, b, d, e, f) {});
            }
            return null;
        }
        case "variant": {
            List<Codec> c = new ArrayList<>();
            for (Ty s : t.subs) c.add(codec(s));
            switch (c.size()) {
            case 2:
                return new Variant2Codec(c.get(0), c.get(1),
                                         (a) -> new Variant2<Object, Object>(new Token.T0(), a) {},
                                         (b) -> new Variant2<Object, Object>(new Token.T1(), b) {});
            case 3:
                return new Variant3Codec(c.get(0), c.get(1), c.get(2),
                                         (a) -> new Variant3<Object, Object, Object>(new Token.T0(), a) {},
                                         (b) -> new Variant3<Object, Object, Object>(new Token.T1(), b) {},
                                         (d) -> new Variant3<Object, Object, Object>(new Token.T2(), d) {});
            }
            return null;
        }
        }
        return null;
    }

    static boolean supported(Ty t) {
        try {
            if (codec(t) == null) return false;
        } catch (RuntimeException e) {
            return false;
        }
        for (Ty s : t.subs)
            if (!supported(s)) return false;
        return true;
    }

    static String hex(byte[] b) {
        StringBuilder sb = new StringBuilder();
        for (byte x : b) sb.append(String.format("%02x", x & 0xff));
        return sb.toString();
    }

    static String dump(Object v, Ty t) {
        switch (t.name) {
        case "bool": return ((Boolean)v) ? "true" : "false";
        case "string": return "s" + hex(((String)v).getBytes(StandardCharsets.UTF_8));
        case "UUID": return "u" + hex(Util.uuidToByteArray((UUID)v));
        case "Offset": {
            Offset o = (Offset)v;
            return "o" + hex(Util.uuidToByteArray(o.getElementId())) + ":" +
                Long.toUnsignedString(o.getDisplacement());
        }
        case "float": return "f" + String.format("%08x", Float.floatToRawIntBits((Float)v));
        case "int8_t": return Integer.toString((Byte)v);
        case "uint8_t": return Integer.toString(((Byte)v) & 0xff);
        case "int16_t": return Integer.toString((Short)v);
        case "uint16_t": return Integer.toString(((Short)v) & 0xffff);
        case "int32_t": return Integer.toString((Integer)v);
        case "uint32_t": return Integer.toUnsignedString((Integer)v);
        case "int64_t": return Long.toString((Long)v);
        case "uint64_t": return Long.toUnsignedString((Long)v);
        case "sequence": {
            List<String> parts = new ArrayList<>();
            for (Object x : (List)v) parts.add(dump(x, t.subs.get(0)));
            return "[" + String.join(",", parts) + "]";
        }
        case "set": {
            List<String> parts = new ArrayList<>();
            for (Object x : (Set)v) parts.add(dump(x, t.subs.get(0)));
            Collections.sort(parts);
            return "{" + String.join(",", parts) + "}";
        }
        case "mapping": {
            List<String> parts = new ArrayList<>();
            for (Object e : ((Map)v).entrySet()) {
                Map.Entry me = (Map.Entry)e;
                parts.add(dump(me.getKey(), t.subs.get(0)) + "=" + dump(me.getValue(), t.subs.get(1)));
            }
            Collections.sort(parts);
            return "{" + String.join(",", parts) + "}";
        }
        case "tuple": {
            List<String> parts = new ArrayList<>();
            Object[] f;
            switch (t.subs.size()) {
            case 1: f = new Object[] {((Tuple1)v).get0()}; break;
            case 2: f = new Object[] {((Tuple2)v).get0(), ((Tuple2)v).get1()}; break;
            case 3: f = new Object[] {((Tuple3)v).get0(), ((Tuple3)v).get1(), ((Tuple3)v).get2()}; break;
            case 4:
                f = new Object[] {((Tuple4)v).get0(), ((Tuple4)v).get1(), ((Tuple4)v).get2(), ((Tuple4)v).get3()};
                break;
            default:
                f = new Object[] {((Tuple5)v).get0(), ((Tuple5)v).get1(), ((Tuple5)v).get2(), ((Tuple5)v).get3(),
                                  ((Tuple5)v).get4()};
            }
            for (int i = 0; i < f.length; i++) parts.add(dump(f[i], t.subs.get(i)));
            return "(" + String.join(",", parts) + ")";
        }
        case "variant": {
            int idx;
            Object x;
            if (t.subs.size() == 2) {
                Variant2 vv = (Variant2)v;
                idx = vv.getIndex();
                x = idx == 0 ? vv.get0().get() : vv.get1().get();
            } else {
                Variant3 vv = (Variant3)v;
                idx = vv.getIndex();
                x = idx == 0 ? vv.get0().get() : idx == 1 ? vv.get1().get() : vv.get2().get();
            }
            return "v" + idx + ":" + dump(x, t.subs.get(idx));
        }
        }
        throw new IllegalArgumentException(t.name);
    }

    static byte[] unhex(String h) {
        if (h.equals("-")) return new byte[0];
        byte[] b = new byte[h.length() / 2];
        for (int i = 0; i < b.length; i++) b[i] = (byte)Integer.parseInt(h.substring(2 * i, 2 * i + 2), 16);
        return b;
    }

    public static void main(String[] args) throws IOException {
        BufferedReader in = new BufferedReader(new InputStreamReader(System.in, StandardCharsets.UTF_8));
        PrintStream out = new PrintStream(new BufferedOutputStream(System.out, 1 << 16), false, "UTF-8");
        String line;
        Map<String, Codec> cache = new HashMap<>();
        Map<String, Ty> tys = new HashMap<>();
        while ((line = in.readLine()) != null) {
            if (line.isEmpty()) continue;
            int sp = line.indexOf(' ');
            String tn = line.substring(0, sp);
            byte[] data = unhex(line.substring(sp + 1));
            try {
                Ty t = tys.get(tn);
                if (t == null) {
                    t = parse(tn);
                    tys.put(tn, t);
                    cache.put(tn, supported(t) ? codec(t) : null);
                }
                Codec c = cache.get(tn);
                if (c == null) {
                    out.println("UNSUPPORTED");
                    continue;
                }
                if (!c.getTypeName().equals(tn)) {
                    out.println("ERR typename " + c.getTypeName());
                    continue;
                }
                ByteArrayInputStream bin = new ByteArrayInputStream(data);
                Object v = c.decode(bin);
                if (bin.available() != 0) {
                    out.println("ERR trailing " + bin.available());
                    continue;
                }
                ByteArrayOutputStream bout = new ByteArrayOutputStream();
                c.encode(bout, v);
                byte[] re = bout.toByteArray();
                out.println("OK " + dump(v, t) + " " + (re.length == 0 ? "-" : hex(re)));
            } catch (Throwable e) {
                out.println("ERR " + e.toString().replace('\n', ' '));
            }
        }
        out.flush();
    }
}
