package com.google.protobuf;

/** Compile-only stand-in for protobuf's ByteString: com.grammatech.gtirb.Util
 *  mentions it in two helper methods that the AuxData codecs never call. */
public final class ByteString {
    public static final ByteString EMPTY = new ByteString(new byte[0]);
    private final byte[] b;
    private ByteString(byte[] b) { this.b = b; }
    public static ByteString copyFrom(byte[] b) { return new ByteString(b.clone()); }
    public byte[] toByteArray() { return b.clone(); }
}
