#!/bin/sh
# MANIFEST.setup_cmd: offline sanity checks; everything else is rebuilt by each check.
cd "$(dirname "$0")" || exit 1
set -e
test -x /venv/bin/python
/venv/bin/python -c "import google.protobuf, intervaltree, sortedcontainers, networkx"
mkdir -p evidence replays .stage
chmod +x check
if command -v javac >/dev/null 2>&1; then
  mkdir -p java/classes
fi
echo "setup ok"
