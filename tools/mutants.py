#!/usr/bin/env python3
"""tools/mutants.py [id ...]: hand-written mutants of clayne/gtirb, each a
small textual replacement applied to a scratch worktree of /repo HEAD (never
to /repo).  For every mutant: run the repository's tests against the patched
staged tree, run the listed checks (quick) with GTIRB_VERIF_REPO, and append
the outcome to mutants/RESULTS.md.  Worktrees are removed afterwards."""

import os
import subprocess
import sys
import tempfile

P = "python/gtirb/"
MUTANTS = [
    ("m33-schema-gains-enum-constant", "proto/Module.proto",
     "  MIPS64 = 9;\n};", "  MIPS64 = 9;\n  RISCV64 = 10;\n};", ["C02", "C01"]),
    ("m34-python-enum-wrong-name", P + "module.py",
     'PPC64 = Module_pb2.ISA.Value("PPC64")', 'PPC64 = Module_pb2.ISA.Value("MIPS64")', ["C02"]),
    ("m01-blockset-discard-keeps-uuid", P + "byteinterval.py",
     "            if self._node.ir is not None:\n                v._remove_from_uuid_cache(self._node.ir._local_uuid_cache)\n            return super().discard(v)",
     "            return super().discard(v)", ["C03"]),
    ("m02-has-address-truthiness", P + "byteinterval.py",
     "        if self.address is None:\n            proto_interval.has_address = False",
     "        if not self.address:\n            proto_interval.has_address = False", ["C01", "C02"]),
    ("m03-symbol-value-truthiness", P + "symbol.py",
     "        if self.value is not None:\n            proto_symbol.value = self.value",
     "        if self.value:\n            proto_symbol.value = self.value", ["C01", "C02"]),
    ("m04-symbol-name-not-indexed", P + "symbol.py",
     "    name = _IndexedAttribute[str]()(lambda self: self.module)",
     "    name = _IndexedAttribute[str]()(lambda self: None)", ["C10"]),
    ("m05-indexed-attribute-discard-after-set", P + "util.py",
     "            parent = self.parent_getter(instance)\n            if parent:\n                parent._index_discard(instance)\n            setattr(instance, self.attribute_name, value)",
     "            parent = self.parent_getter(instance)\n            setattr(instance, self.attribute_name, value)\n            if parent:\n                parent._index_discard(instance)", ["C05", "C06", "C10", "C12"]),
    ("m06-lazy-events-cleared-before-replay", P + "lazyintervaltree.py",
     "        else:\n            # There are fewer updates than constructing a new tree would use.\n            for event, interval in self._interval_events:",
     "        else:\n            # There are fewer updates than constructing a new tree would use.\n            for event, interval in self._interval_events[1:]:", ["C05", "C12"]),
    ("m07-on-filter-boundary", P + "util.py",
     "        if node_interval.end - 1 <= desired_range.start:",
     "        if node_interval.end - 1 < desired_range.start:", ["C05", "C06"]),
    ("m08-label-fields-swapped-both-ways", P + "cfg.py",
     "                    Edge.Type(edge.label.type),\n                    edge.label.conditional,\n                    edge.label.direct,",
     "                    Edge.Type(edge.label.type),\n                    edge.label.direct,\n                    edge.label.conditional,", ["C02", "C01"],
     [(P + "cfg.py",
       "                proto_edge.label.conditional = l.conditional\n                proto_edge.label.direct = l.direct",
       "                proto_edge.label.conditional = l.direct\n                proto_edge.label.direct = l.conditional")]),
    ("m09-section-flags-not-copied", P + "section.py",
     "        self.flags = set(flags)", "        self.flags = flags if isinstance(flags, set) else set(flags)", ["C04"]),
    ("m10-symbol-deep-eq-forgets-at-end", P + "symbol.py",
     "            self.name == other.name\n            and self.at_end == other.at_end\n",
     "            self.name == other.name\n", ["C18"]),
    ("m11-auxdata-raw-reuse-ignores-type-name", P + "auxdata.py",
     "        if self._lazy_container is not None and (\n            self.type_name == self._lazy_container.type_name\n        ):",
     "        if self._lazy_container is not None:", ["C14"]),
    ("m12-type-name-stripped", P + "serialization.py",
     '        tokens = findall("[^<>,]+|<|>|,", type_name)',
     '        tokens = findall("[^<>,]+|<|>|,", type_name.strip())', ["C15"]),
    ("m13-symexpr-at-ignores-step", P + "byteinterval.py",
     "            if self.address + i in addrs:\n                yield (self, i, self.symbolic_expressions[i])",
     "            if True:\n                yield (self, i, self.symbolic_expressions[i])", ["C13"]),
    ("m14-contains-offset-inclusive", P + "block.py",
     "        return self.offset <= offset < (self.offset + self.size)",
     "        return self.offset <= offset <= (self.offset + self.size)", ["C19"]),
    ("m15-initialized-size-pads-too-much", P + "byteinterval.py",
     '            self.contents += b"\\0" * (value - len(self.contents))',
     '            self.contents += b"\\0" * value', ["C19"]),
    ("m16-module-remove-keeps-ir", P + "ir.py",
     "        def _remove(self, v: Module) -> None:\n            v._ir = None\n",
     "        def _remove(self, v: Module) -> None:\n", ["C04"]),
    ("m17-from-protobuf-no-kind-check", P + "node.py",
     "            elif cached_node is not None:\n                raise DeserializationError(\n                    \"got %s for UUID %s but expected %s\"\n                    % (type(cached_node).__name__, uuid, cls.__name__)\n                )\n",
     "", ["C17"]),
    ("m18-cfg-discard-ignores-label", P + "cfg.py",
     "                    if \"label\" in e and e[\"label\"] == edge.label:\n                        return key",
     "                    if \"label\" in e:\n                        return key", ["C11"]),
    ("m19-uint16-signed", P + "serialization.py",
     '    typname = "uint16_t"\n    bytesize = 2\n    signed = False',
     '    typname = "uint16_t"\n    bytesize = 2\n    signed = True', ["C07", "C08"]),
    ("m20-offset-fields-swapped-both-ways", P + "serialization.py",
     "        element_uuid = UUIDCodec.decode(raw_bytes, get_by_uuid=get_by_uuid)\n        displacement = Uint64Codec.decode(raw_bytes)\n",
     "        displacement = Uint64Codec.decode(raw_bytes)\n        element_uuid = UUIDCodec.decode(raw_bytes, get_by_uuid=get_by_uuid)\n", ["C08"],
     [(P + "serialization.py",
       "        UUIDCodec.encode(out, val.element_id)\n        Uint64Codec.encode(out, val.displacement)",
       "        Uint64Codec.encode(out, val.displacement)\n        UUIDCodec.encode(out, val.element_id)")]),
    ("m21-rebase-delta-not-read", P + "module.py",
     "            rebase_delta=proto_module.rebase_delta,\n", "", ["C01", "C02"]),
    ("m22-header-reserved-byte", P + "ir.py",
     '        protobuf_file.write(GTIRB_MAGIC_CHARS)\n        protobuf_file.write(b"\\0")',
     '        protobuf_file.write(GTIRB_MAGIC_CHARS)\n        protobuf_file.write(b"\\1")', ["C02"]),
    ("m23-message-version-not-checked", P + "ir.py",
     "        if proto_ir.version != PROTOBUF_VERSION:", "        if False:", ["C17"]),
    ("m24-section-address-partial", P + "section.py",
     "        index = self._interval_index.get()\n        if 0 < len(index) == len(self.byte_intervals):\n            return index.begin()",
     "        index = self._interval_index.get()\n        if 0 < len(index):\n            return index.begin()", ["C06"]),
    ("m25-proxy-setter-keeps-old-module", P + "block.py",
     "        if self._module is not None:\n            self._module.proxies.discard(self)\n        if value is not None:\n            value.proxies.add(self)",
     "        if value is not None:\n            value.proxies.add(self)\n        elif self._module is not None:\n            self._module.proxies.discard(self)", ["C04"]),
    ("m26-setwrapper-clear-bypasses-hooks", P + "util.py",
     "    def clear(self) -> None:\n        while self:\n            self.pop()",
     "    def clear(self) -> None:\n        self._data.clear()", ["C03", "C04", "C16"]),
    ("m27-vertices-only-code-blocks", P + "ir.py",
     "        proto_cfg.vertices.extend(v.uuid.bytes for v in self.cfg_nodes)",
     "        proto_cfg.vertices.extend(v.uuid.bytes for v in self.code_blocks)", ["C02"]),
    ("m28-entry-point-not-written-for-second-module", P + "module.py",
     "        if self.entry_point is not None:\n            proto_module.entry_point = self.entry_point.uuid.bytes",
     "        if self.entry_point is not None and (\n            self.ir is None or self.ir.modules[0] is self\n        ):\n            proto_module.entry_point = self.entry_point.uuid.bytes", ["C01", "C02"]),
    ("m29-nodeset-add-skips-cache-when-member-of-other-ir", P + "module.py",
     "            v._module = self._node\n            self._node._index_add(v)\n            if self._node.ir is not None:",
     "            had_ir = v.ir is not None\n            v._module = self._node\n            self._node._index_add(v)\n            if self._node.ir is not None and not had_ir:", ["C03"]),
    ("m30-string-decoder-reads-chars", P + "serialization.py",
     '        return raw_bytes.read(size).decode("utf-8")',
     '        return raw_bytes.read(size).decode("utf-8", errors="replace")', ["C07", "C08"]),
    ("m31-symexpr-attrs-unknown-dropped-on-save", P + "byteinterval.py",
     "            attrs = (\n                a.value if isinstance(a, SymbolicExpression.Attribute) else a\n                for a in v.attributes\n            )",
     "            attrs = (\n                a.value\n                for a in v.attributes\n                if isinstance(a, SymbolicExpression.Attribute)\n            )", ["C01", "C02"]),
    ("m32-references-uses-name-index", P + "block.py",
     "        symbol_set = self.module._symbol_referent_index.get(self)\n        if symbol_set:\n            yield from symbol_set",
     "        symbol_set = self.module._symbol_referent_index.get(self)\n        if symbol_set:\n            yield from sorted(symbol_set, key=lambda s: s.name)[:8]", ["C10"]),
]


def sh(cmd, **kw):
    return subprocess.run(cmd, shell=True, capture_output=True, text=True, **kw)


def main():
    want = set(sys.argv[1:])
    os.makedirs("/verif/mutants", exist_ok=True)
    results = []
    for m in MUTANTS:
        mid, path, old, new, props = m[:5]
        extra = m[5] if len(m) > 5 else []
        if want and mid not in want and mid.split("-")[0] not in want:
            continue
        wt = tempfile.mkdtemp(prefix="mut_", dir="/tmp")
        os.rmdir(wt)
        r = sh("git -C /repo worktree add --detach %s HEAD -q" % wt)
        if r.returncode:
            print(mid, "worktree failed", r.stderr)
            continue
        try:
            ok = True
            for (pth, o, n) in [(path, old, new)] + list(extra):
                f = os.path.join(wt, pth)
                s = open(f).read()
                if s.count(o) != 1:
                    print("%s: pattern occurs %d times in %s" % (mid, s.count(o), pth))
                    ok = False
                    break
                open(f, "w").write(s.replace(o, n))
            if not ok:
                results.append((mid, "PATTERN-MISMATCH", {}))
                continue
            diff = sh("git -C %s diff" % wt).stdout
            open("/verif/mutants/%s.diff" % mid, "w").write(diff)
            t = sh("/verif/tools/run_repo_tests.sh %s" % wt)
            tests = "pass" if " passed" in t.stdout and "failed" not in t.stdout \
                and "error" not in t.stdout.lower() else "FAIL"
            det = {}
            for p in props:
                c = sh("GTIRB_VERIF_REPO=%s /verif/check %s quick" % (wt, p))
                sigs = [l.strip()[len("signature: "):] for l in c.stdout.splitlines()
                        if l.strip().startswith("signature:")]
                det[p] = (c.returncode, sigs[:2])
            results.append((mid, tests, det))
            print(mid, tests, {p: (rc, s[:1]) for p, (rc, s) in det.items()},
                  flush=True)
        finally:
            sh("git -C /repo worktree remove --force %s" % wt)
    with open("/verif/mutants/RESULTS.md", "a") as f:
        f.write("\n## run of tools/mutants.py %s\n\n" % " ".join(sys.argv[1:]))
        f.write("| mutant | repo tests on patched tree | check: exit code, first signatures |\n|---|---|---|\n")
        for mid, tests, det in results:
            cell = "; ".join("%s: rc=%d %s" % (p, rc, ", ".join(s)[:110])
                             for p, (rc, s) in det.items())
            f.write("| %s | %s | %s |\n" % (mid, tests, cell))


if __name__ == "__main__":
    main()
