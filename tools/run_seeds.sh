#!/bin/sh
# tools/run_seeds.sh [tier] [id-prefix]: re-run every kept seeded change against the
# check of its property; one line per seed: CAUGHT / MISSED / DOES-NOT-APPLY.
tier="${1:-quick}"; want="$2"
cd /verif
for d in /verif/seeded/*/; do
  id=$(basename "$d")
  case "$id" in "$want"*) ;; *) continue;; esac
  [ -f "$d/meta.json" ] || continue
  prop=$(python3 -c "import json,sys; print(json.load(open('$d/meta.json'))['property'])")
  if grep -q '"retired"' "$d/meta.json"; then echo "$id $prop RETIRED"; continue; fi
  out=$(tools/try_seed.sh "$d" "$tier" "$prop" 2>&1)
  if echo "$out" | grep -q "PATCH-DOES-NOT-APPLY"; then r="DOES-NOT-APPLY";
  elif echo "$out" | grep -q "^VIOLATION property=$prop"; then r="CAUGHT";
  else r="MISSED"; fi
  tests=$(echo "$out" | grep -c "113 passed")
  demo=$(echo "$out" | grep "demo with patch" | sed 's/.*exit \([0-9]*\).*/\1/')
  echo "$id $prop $r tests_pass=$tests demo_exit_with_patch=$demo first: $(echo "$out" | grep 'signature:' | head -1 | cut -c1-110)"
done
