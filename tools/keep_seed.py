#!/usr/bin/env python3
"""tools/keep_seed.py <src_dir> <id> <property> <caught_by> <needs...>: store a
confirmed seeded change under /verif/seeded/<id>/"""
import json, os, shutil, sys
src, sid, prop, caught = sys.argv[1:5]
needs = " ".join(sys.argv[5:])
dst = os.path.join("/verif/seeded", sid)
os.makedirs(dst, exist_ok=True)
for f in ("patch.diff", "demo.py", "notes.md"):
    if os.path.exists(os.path.join(src, f)):
        shutil.copy(os.path.join(src, f), dst)
meta = {
    "id": sid,
    "property": prop,
    "needs_to_manifest": needs,
    "source": "independent sub-agent given only the property text and a scratch worktree",
    "confirmed": {
        "repo_tests_on_patched_tree": "113 passed (tools/run_repo_tests.sh via tools/try_seed.sh)",
        "demo_with_patch": "fails (non-zero exit)",
        "demo_without_patch": "passes",
    },
    "ran": "tools/try_seed.sh %s quick %s" % (dst, prop),
    "caught_by": caught,
}
json.dump(meta, open(os.path.join(dst, "meta.json"), "w"), indent=1)
print("kept", dst)
