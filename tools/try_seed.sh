#!/bin/sh
# tools/try_seed.sh <seed_dir> <tier> <prop> [<prop>...]
# Applies <seed_dir>/patch.diff to a scratch worktree of /repo HEAD, confirms
# that the repository's tests still pass on the patched tree, that
# <seed_dir>/demo.py fails with the patch and passes without, then runs the
# given checks against the patched tree.  Removes the worktree afterwards.
seed="$1"; tier="$2"; shift 2
wt=$(mktemp -d /tmp/try_seed.XXXXXX); rmdir "$wt"
git -C /repo worktree add --detach "$wt" HEAD -q || exit 2
if ! git -C "$wt" apply "$seed/patch.diff" 2>/dev/null && ! git -C "$wt" apply --3way "$seed/patch.diff"; then
  echo "PATCH-DOES-NOT-APPLY"; git -C /repo worktree remove --force "$wt"; exit 2
fi
echo "== repository tests on the patched tree"
/verif/tools/run_repo_tests.sh "$wt" | tail -3
st_p=$(mktemp -d /tmp/stage_p.XXXXXX); st_c=$(mktemp -d /tmp/stage_c.XXXXXX)
cd /verif && /venv/bin/python -m mc.build "$st_p" "$wt" >/dev/null && /venv/bin/python -m mc.build "$st_c" /repo >/dev/null
if [ -f "$seed/demo.py" ]; then
  (cd "$st_p" && PYTHONPATH="$st_p" timeout 300 /venv/bin/python "$seed/demo.py" >/dev/null 2>&1); echo "== demo with patch: exit $? (want non-zero)"
  (cd "$st_c" && PYTHONPATH="$st_c" timeout 300 /venv/bin/python "$seed/demo.py" >/dev/null 2>&1); echo "== demo without patch: exit $? (want 0)"
fi
rm -rf "$st_p" "$st_c"
for p in "$@"; do
  echo "== ./check $p $tier on the patched tree"
  GTIRB_VERIF_REPO="$wt" /verif/check "$p" "$tier" 2>&1 | grep -E "VIOLATION|signature|KNOWN|wall=|Error|error" | head -12
done
git -C /repo worktree remove --force "$wt"
