#!/bin/sh
# tools/run_repo_tests.sh [repo]: run the repository's own pytest suite against the
# *tree's* python package (staged build), not against the wheel in /venv.
repo="${1:-/repo}"
stage=$(mktemp -d /tmp/stage_tests.XXXXXX)
cd /verif && /venv/bin/python -m mc.build "$stage" "$repo" >/dev/null || exit 2
cd "$repo" && PYTHONPATH="$stage" /venv/bin/python -m pytest python/tests -q -p no:cacheprovider -x 2>&1 | tail -4
rc=$?
PYTHONPATH="$stage" /venv/bin/python -c "import gtirb,sys; print('tested', gtirb.__file__)"
rm -rf "$stage"
exit $rc
