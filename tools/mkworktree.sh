#!/bin/sh
# tools/mkworktree.sh <dir> [rev]: scratch git worktree of /repo whose python/gtirb is
# importable (generated version.py and proto/*_pb2.py, untracked), for
# experiments outside /repo and /verif.
set -e
dir="$1"; rev="${2:-HEAD}"
git -C /repo worktree add --detach "$dir" "$rev" -q
cd /verif
/venv/bin/python - "$dir" <<'PY'
import sys, os, shutil, tempfile
sys.path.insert(0, '/verif')
from mc import build
wt = sys.argv[1]
tmp = tempfile.mkdtemp(prefix='stage_')
build.build_stage(wt, tmp)
shutil.copy(os.path.join(tmp, 'gtirb', 'version.py'), os.path.join(wt, 'python', 'gtirb', 'version.py'))
for f in os.listdir(os.path.join(tmp, 'gtirb', 'proto')):
    if f.endswith('_pb2.py'):
        shutil.copy(os.path.join(tmp, 'gtirb', 'proto', f), os.path.join(wt, 'python', 'gtirb', 'proto', f))
shutil.rmtree(tmp)
PY
grep -q "_pb2.py" "$(git -C "$dir" rev-parse --git-path info/exclude)" || printf "python/gtirb/version.py\npython/gtirb/proto/*_pb2.py\n" >> "$(git -C "$dir" rev-parse --git-path info/exclude)"
echo "$dir ready"
