#!/bin/sh
# tools/run_all.sh [tier]: run every registered check on /repo, print one line each.
tier="${1:-quick}"
cd /verif
rc=0
for p in C01 C02 C03 C04 C05 C06 C07 C08 C09 C10 C11 C12 C13 C14 C15 C16 C17 C18 C19; do
  out=$(./check $p $tier 2>&1); r=$?
  echo "$p rc=$r $(echo "$out" | grep -E 'wall=' | sed 's/.*wall=/wall=/')"
  echo "$out" | grep -E "VIOLATION|KNOWN-FINDING|INFRA" | head -5
  [ $r -ne 0 ] && rc=1
done
exit $rc
